package rules

import (
	"fmt"
	"go/token"
	"go/types"
	"sort"
	"strings"

	"golang.org/x/tools/go/ssa"

	"verif/checker/eng"
)

func init() { register("C15", c15) }

const logicalPkg = "consensus/logical"

func c15(c *eng.Ctx, r *eng.Report) {
	r.Explain = "Share-counting discipline of the block-signing rounds decided on the SSA of consensus/logical: " +
		"R15.1 in round1.Update a share is added to the block-signature recovery set only on a path where the sender's key was found, the share's data hash was compared with this block's hash, the share verified under that key AND the accompanying beacon share verified against preBH.Random; the beacon share is added only after VerifySig(key, preBH.Random, share); " +
		"R15.2 sibling agreement — both block-signing handlers that call SignInfo.VerifySign also compare SignInfo.GetDataHash() with a locally recomputed hash; " +
		"R15.3 the member key comes from GetMemberSignPubKey(group, signer) with its ok result tested, and the generator refuses duplicates before inserting; " +
		"R15.4 round2 verifies both recovered signatures under the group key before the block is handed to the chain; " +
		"R15.6 an early verify message is parked for replay whatever it claims — no condition derived from the unverified message guards the parking; " +
		"R15.5 SignInfo.VerifySign consults no process-local state (its verdict depends only on key, hash and signature). " +
		"R15.7 before a share has been verified, the only things about the message that decide whether it will be are the reviewed ones (it is a verify message, the sender's key is known, its data hash is this block's): no other branch on message content — in particular none on state keyed by the unauthenticated signer id — stands between a share and its verification; " +
		"R15.8 the key a member's shares are verified under is bound once: the stored share public key is written only on the not-yet-stored edge (first announcement wins; an announcement is only self-signed, so a later one naming the same member proves nothing), and only AddMemberSignPk writes it. " +
		"R15.10 a panic raised while handling one message ends that message, not the party: the deferred recover() of baseParty.Update neither sends on the party's Err channel nor calls anything that does (ID.Serialize panics on an over-long signer id, which the wire decoder lets through); " +
		"R15.12 the key a share is verified under is the sender's key in this block's group: every key GetMemberSignPubKey(group, member) returns comes from GetMemberSignPK(member) on the record GetJoinedGroupInfo(group) returned — not from a store keyed by the member alone (a miner sits in several groups with a different share key in each); " +
		"R15.14 the share sets are fed by the checked path only: outside the generator's own methods the only function that calls AddWitnessSign/addWitnessForce is (*round1).Update, whose two call sites R15.1 decides — a second feeder (a batch path over parked messages that verifies the recovered result instead of each piece) lets one bad piece into the set, and what it leaves behind blocks the honest shares; " +
		"R15.19 what one parked message says cannot stop the replay of the others: wherever the processor feeds messages parked before the proposal to the party in a loop (waitUntilDone and its closures), no edge leaves that loop on a condition computed from the message being fed — a `return` on a piece whose data hash differs from the block hash drops every honest piece parked behind it; " +
		"R15.18 shares from non-members are ignored: both AddWitnessSign calls of round1.Update are reached only across the true edge of group.MemExist(signer) for the block's group — the key lookup alone does not say so, because the announcement handler (OnMessageSignPK) stores any self-signed (signer, group, key) triple without asking whether the signer belongs to the group: an outsider announces a key of its own and its share passes every other check (finding F30); " +
		"R15.17 an id taken from a message can be written back: ID.Serialize panics for a value wider than ID_LENGTH bytes, so (*ID).Deserialize — the only way bytes from the wire become an ID — refuses input longer than ID_LENGTH before it stores it; otherwise one verify message with a 33-byte signer id, parked during the round-0 wait, panics inside round1.Start's replay loop (the first thing round1.Update does is log the signer's hex id), the party's recover swallows it, and the honest pieces the loop had not reached yet are never replayed (finding F29); " +
		"R15.16 the bytes a share is verified over are the data hash and nothing else of the message: in SignInfo.VerifySign the message handed to groupsig.VerifySig is computed from the field dataHash alone — round 1 compares dataHash with the block's hash, so if another sender-filled field (a version number) selects what was signed, a share over other bytes passes as a share over this block's hash and poisons the recovery set; " +
		"R15.15 a party parks every early message: baseParty.StoreMessage reaches its futureMessages update on every path (no return precedes it) — a quota counted before any signature is checked is filled by one faulty member's forged messages and the honest shares that arrive afterwards are dropped; " +
		"R15.13 a verify message is identified by the digest of its whole wire form: the Id that UnMarshalConsensusVerifyMessage assigns — the key of CanAccept, futureMessages and processed — is computed by a hash over the received bytes, not from fields the sender fills in (a forged piece naming another member would otherwise occupy that member's id and the genuine share be dropped as a duplicate); " +
		"R15.11 the share sets recover as soon as the threshold is reached: the comparison of the number of collected shares with the threshold in both generators is `count >= threshold` (not `>`): with exactly threshold valid shares the block must finalise; " +
		"R15.9 garbage from one member cannot end the round: round1.Update returns a non-nil *Error — which terminates the signing party for everyone — only on conditions that do not depend on the content of the message (it is not a verify message; the block is already on chain); a share that fails any check is dropped with `return nil`. " +
		"Not decided: recovery correctness (C13), network-level behaviour."
	r.Assume = []string{"groupsig.VerifySig is sound (C14)", "SignInfo.VerifySign(pk) = VerifySig(pk, dataHash, signature)"}
	c15Round1(c, r)
	c15Siblings(c, r)
	c15Generator(c, r)
	c15Round2(c, r)
	c15Purity(c, r)
	c15Parking(c, r)
	c15PreVerifyBranches(c, r)
	c15KeyBinding(c, r)
	c15NoFatalOnContent(c, r)
	c15RecoverDoesNotKill(c, r)
	c15ThresholdCompare(c, r)
	c15KeyOfThisGroup(c, r)
	c15MessageIdIsDigest(c, r)
	c15OnlyCheckedPathFeedsShares(c, r)
	c15PartyParksEverything(c, r)
	c15VerifiedBytesAreTheHash(c, r)
	c15DecodedIdsSerialise(c, r)
	c15OnlyMembersHaveShares(c, r)
	c15ReplayVisitsEveryParked(c, r)
}

// c15Parking: a verify message that arrives before its party exists is parked
// and replayed later; whether it is kept may depend on the party bookkeeping
// only, never on what the (still unverified) message claims — a filter on the
// claimed signer lets one member pre-file garbage under every name and starve
// the honest shares.
func c15Parking(c *eng.Ctx, r *eng.Report) {
	const rule = "R15.6"
	r.Min(rule, 1)
	fn := c.Func("consensus/logical", "(*Processor).loadOrNewSignParty")
	if !r.Anchor(fn != nil, rule, "(*Processor).loadOrNewSignParty") {
		return
	}
	var msg *ssa.Parameter
	for _, p := range fn.Params {
		if p.Name() == "msg" {
			msg = p
		}
	}
	n := 0
	for _, s := range eng.Sites(fn) {
		if !strings.HasSuffix(s.Name(), "lru.Cache).Add") || !strings.HasSuffix(eng.Desc(s.Common().Args[0]), ".futureMessages") {
			continue
		}
		n++
		bad := ""
		for _, cd := range eng.CondsAt(s.Instr) {
			if msg != nil && valueDerivesFromValue(cd.V, msg) {
				bad = eng.Desc(cd.V)
			}
		}
		// any branch on the message's content from which the parking is reachable on one side only
		reach := func(from *ssa.BasicBlock) bool {
			seen := map[*ssa.BasicBlock]bool{}
			var walk func(b *ssa.BasicBlock) bool
			walk = func(b *ssa.BasicBlock) bool {
				if b == s.Instr.Block() {
					return true
				}
				if seen[b] {
					return false
				}
				seen[b] = true
				for _, x := range b.Succs {
					if walk(x) {
						return true
					}
				}
				return false
			}
			return walk(from)
		}
		for _, b := range fn.Blocks {
			iff, isIf := b.Instrs[len(b.Instrs)-1].(*ssa.If)
			if !isIf || msg == nil || !valueDerivesFromValue(iff.Cond, msg) {
				continue
			}
			if reach(b.Succs[0]) != reach(b.Succs[1]) {
				bad = eng.Desc(iff.Cond)
			}
		}
		// what is parked is the message itself, appended to what was parked before
		r.Check(bad == "", rule, "loadOrNewSignParty:park-unconditionally", c.Pos(s.Pos()), "an early message is parked whatever it claims (conditions involve the party tables and isNew only)", "whether an early verify message is parked depends on "+bad+", i.e. on the content of the message before any signature was verified: a Byzantine member can pre-file messages naming other members so that their genuine shares are discarded, the threshold is never reached and the block does not finalise")
	}
	if n == 0 {
		r.Fail(rule, "loadOrNewSignParty:park", c.Pos(fn.Pos()), "no futureMessages.Add found in loadOrNewSignParty: early messages are no longer parked (or the parking moved and must be re-reviewed)")
	}
}

// c15Purity: whether a share verifies is a function of (key, data hash, signature) only.
func c15Purity(c *eng.Ctx, r *eng.Report) {
	const rule = "R15.5"
	r.Min(rule, 1)
	vs := c.Func("consensus/model", "SignInfo.VerifySign")
	if !r.Anchor(vs != nil, rule, "model.SignInfo.VerifySign") {
		return
	}
	inScope := func(fn *ssa.Function) bool {
		p := eng.FuncPkgPath(fn)
		return strings.HasSuffix(p, "/consensus/model") || strings.HasSuffix(p, "/consensus/groupsig") || strings.HasSuffix(p, "/consensus/groupsig/bn256")
	}
	cone := c.ConeOf([]*ssa.Function{vs}, inScope)
	hits, n := 0, 0
	for _, fn := range cone.Sorted() {
		if !inScope(fn) || fn.Blocks == nil {
			continue
		}
		n++
		for _, h := range eng.ScanNondeterminism(fn) {
			if h.Kind == "chan" || h.Kind == "go" || h.Kind == "select" {
				continue
			}
			hits++
			r.Fail(rule, h.Kind+":"+eng.FuncName(fn), c.Pos(h.Pos), h.Detail+" in the cone of SignInfo.VerifySign ("+cone.PathTo(fn)+"): whether a share is accepted then depends on what was verified earlier in this process, not only on (key, hash, signature)")
		}
	}
	if hits == 0 {
		r.Pass(rule, "purity", "", fmt.Sprintf("no cache, package-variable store, map range, clock or randomness in the %d functions reachable from SignInfo.VerifySign", n))
	}
}

func c15Round1(c *eng.Ctx, r *eng.Report) {
	const rule = "R15.1"
	r.Min(rule, 2)
	fn := c.Func(logicalPkg, "(*round1).Update")
	if !r.Anchor(fn != nil, rule, "(*round1).Update") {
		return
	}
	adds := callsNamed(fn, "(*consensus/logical.groupSignGenerator).AddWitnessSign")
	if len(adds) != 2 {
		r.Fail(rule, "round1.Update:shape", c.Pos(fn.Pos()), fmt.Sprintf("%d AddWitnessSign calls (2 expected: block share, beacon share)", len(adds)))
		return
	}
	var gAdd, rAdd *ssa.Call
	for _, a := range adds {
		d := eng.Desc(a.Call.Args[0])
		if strings.HasSuffix(d, ".gSignGenerator") {
			gAdd = a
		}
		if strings.HasSuffix(d, ".rSignGenerator") {
			rAdd = a
		}
	}
	if gAdd == nil || rAdd == nil {
		r.Fail(rule, "round1.Update:shape", c.Pos(fn.Pos()), "block-share / beacon-share generators not recognised")
		return
	}
	// --- block share
	var pkCall, verify *ssa.Call
	for _, s := range eng.Sites(fn) {
		if strings.HasSuffix(s.Name(), ".GetMemberSignPubKey") {
			pkCall, _ = s.Instr.(*ssa.Call)
		}
		if s.Name() == "(consensus/model.SignInfo).VerifySign" {
			verify, _ = s.Instr.(*ssa.Call)
		}
	}
	okKey, okHash, okVerify, directVerify := false, false, false, false
	okBeaconFirst := false
	for _, cd := range eng.CondsAt(gAdd) {
		if call, isC := cd.V.(*ssa.Call); isC && eng.CallName(&call.Call) == "consensus/groupsig.VerifySig" && cd.True {
			if strings.HasSuffix(eng.Desc(call.Call.Args[1]), ".preBH.Random") {
				okBeaconFirst = true
			}
		}
	}
	for _, cd := range eng.CondsAt(gAdd) {
		// ok result of the key lookup
		if ex, isE := cd.V.(*ssa.Extract); isE && pkCall != nil && ex.Tuple == ssa.Value(pkCall) && ex.Index == 1 && cd.True {
			okKey = true
		}
		if verify != nil && cd.V == ssa.Value(verify) && cd.True {
			okVerify = true
		}
		if call, isC := cd.V.(*ssa.Call); isC && eng.CallName(&call.Call) == "consensus/groupsig.VerifySig" && cd.True {
			if strings.Contains(eng.Desc(call.Call.Args[1]), ".bh") && strings.Contains(eng.Desc(call.Call.Args[1]), ".Hash") {
				directVerify = true
			}
		}
		if m, isM := cd.Cmp(); isM && m.Op == token.EQL {
			dx, dy := eng.Desc(m.X), eng.Desc(m.Y)
			if (strings.Contains(dx, "GetDataHash(") && strings.Contains(dy, ".bh") && strings.HasSuffix(dy, ".Hash")) ||
				(strings.Contains(dy, "GetDataHash(") && strings.Contains(dx, ".bh") && strings.HasSuffix(dx, ".Hash")) {
				okHash = true
			}
		}
	}
	// the share added is the one verified, under the key looked up for the signer
	sameShare := strings.Contains(eng.Desc(gAdd.Call.Args[2]), "GetSignature(") && strings.Contains(eng.Desc(gAdd.Call.Args[1]), "GetSignerID(")
	ok := okKey && sameShare && (directVerify || (okVerify && okHash)) && okBeaconFirst
	r.Check(ok, rule, "round1.Update:block-share", c.Pos(gAdd.Pos()),
		"the block share is counted only after key lookup ok, data hash == this block's hash, and the share verified under that key",
		fmt.Sprintf("a share can be added to the block-signature recovery set without all of the sender's checks having passed (key lookup ok=%v, dataHash==bh.Hash=%v, VerifySign=%v, share/signer taken from the verified SignInfo=%v, accompanying beacon share verified first=%v): a faulty member's message is then counted in one recovery set but not the other (or over another hash), the sets diverge or recover an invalid signature, and the block cannot finalise", okKey, okHash, okVerify || directVerify, sameShare, okBeaconFirst))
	// --- beacon share
	okR := false
	for _, cd := range eng.CondsAt(rAdd) {
		if call, isC := cd.V.(*ssa.Call); isC && eng.CallName(&call.Call) == "consensus/groupsig.VerifySig" && cd.True {
			a := call.Call.Args
			if strings.HasSuffix(eng.Desc(a[1]), ".preBH.Random") && pkCall != nil {
				// same key, same share value as added
				if ex, isE := eng.Unwrap(a[0]).(*ssa.Extract); isE && ex.Tuple == ssa.Value(pkCall) {
					if sameValue(a[2], rAdd.Call.Args[2]) {
						okR = true
					}
				}
			}
		}
	}
	r.Check(okR, rule, "round1.Update:beacon-share", c.Pos(rAdd.Pos()), "the beacon share is counted only after VerifySig(memberKey, preBH.Random, share)", "the random-beacon share is added without being verified against the previous beacon value under the sender's key")
}

func sameValue(a, b ssa.Value) bool {
	ua, ub := eng.Unwrap(a), eng.Unwrap(b)
	if ua == ub {
		return true
	}
	return eng.Desc(a) == eng.Desc(b)
}

func c15Siblings(c *eng.Ctx, r *eng.Report) {
	const rule = "R15.2"
	r.Min(rule, 2)
	for _, name := range []string{"(*round0).afterPreArrived", "(*round1).Update"} {
		fn := c.Func(logicalPkg, name)
		if !r.Anchor(fn != nil, rule, name) {
			continue
		}
		vs := callsNamed(fn, "(consensus/model.SignInfo).VerifySign")
		if len(vs) == 0 {
			r.Fail(rule, "sibling:"+name, c.Pos(fn.Pos()), "handler no longer calls SignInfo.VerifySign")
			continue
		}
		compares := false
		for _, b := range fn.Blocks {
			for _, in := range b.Instrs {
				bo, ok := in.(*ssa.BinOp)
				if !ok || (bo.Op != token.EQL && bo.Op != token.NEQ) {
					continue
				}
				d := eng.Desc(bo.X) + " " + eng.Desc(bo.Y)
				if strings.Contains(d, "GetDataHash(") && (strings.Contains(d, "GenHash(") || strings.Contains(d, ".Hash")) {
					compares = true
				}
			}
		}
		r.Check(compares, rule, "sibling:"+name, c.Pos(vs[0].Pos()), "VerifySign is accompanied by a comparison of the signed data hash with a locally recomputed hash", name+" verifies a signature over the sender-supplied data hash but never compares that hash with the locally known one (its sibling handler does)")
	}
}

func c15Generator(c *eng.Ctx, r *eng.Report) {
	const rule = "R15.3"
	r.Min(rule, 1)
	// wherever a share enters the recovery set (addWitnessForce today; the rule follows the insertion, not the name)
	for _, fn := range c.PkgFuncs(logicalPkg) {
		if c.IsTestFunc(fn) {
			continue
		}
		n := 0
		for _, b := range fn.Blocks {
			for _, in := range b.Instrs {
				mu, isMU := in.(*ssa.MapUpdate)
				if !isMU {
					continue
				}
				if t, f := eng.FieldOf(eng.Unwrap(mu.Map)); !strings.HasSuffix(t, "groupSignGenerator") || f != "witnessSignMap" {
					continue
				}
				ok := false
				for _, cd := range eng.CondsAt(mu) {
					if ex, isE := cd.V.(*ssa.Extract); isE && ex.Index == 1 && !cd.True {
						if lk, isL := ex.Tuple.(*ssa.Lookup); isL && lk.CommaOk && lk.Index == mu.Key {
							ok = true
						}
					}
				}
				name := strings.TrimPrefix(eng.FuncName(fn), "(*consensus/logical.groupSignGenerator).")
				key := name + ":duplicate-refused"
				if n > 0 {
					key = fmt.Sprintf("%s#%d", key, n)
				}
				n++
				r.Check(ok, rule, key, c.Pos(mu.Pos()), "a share is inserted only when no share of that member is present", "a second share of the same member can overwrite/increase the recovery set")
			}
		}
	}
}

func c15Round2(c *eng.Ctx, r *eng.Report) {
	const rule = "R15.4"
	r.Min(rule, 2)
	start := c.Func(logicalPkg, "(*round2).Start")
	cs := c.Func(logicalPkg, "(*round2).checkSignature")
	if !r.Anchor(start != nil, rule, "(*round2).Start") || !r.Anchor(cs != nil, rule, "(*round2).checkSignature") {
		return
	}
	// checkSignature returns nil only after both VerifySig calls returned true
	vs := callsNamed(cs, "consensus/groupsig.VerifySig")
	data := map[*ssa.Call]ssa.Value{}
	for _, v := range vs {
		data[v] = v.Call.Args[1]
	}
	// a private wrapper that does nothing but return VerifySig of its own parameters is that call
	for _, s := range eng.Sites(cs) {
		h := s.Static()
		call, isCall := s.Instr.(*ssa.Call)
		if h == nil || !isCall || h.Pkg != cs.Pkg || h.Blocks == nil || token.IsExported(h.Name()) {
			continue
		}
		inner := callsNamed(h, "consensus/groupsig.VerifySig")
		rets := eng.Returns(h)
		if len(inner) != 1 || len(rets) != 1 || len(rets[0].Ret.Results) != 1 || rets[0].Ret.Results[0] != ssa.Value(inner[0]) {
			continue
		}
		mapped := 0
		var dataArg ssa.Value
		for ai := 0; ai < 2; ai++ {
			for pi, q := range h.Params {
				if inner[0].Call.Args[ai] == ssa.Value(q) && pi < len(call.Call.Args) {
					mapped++
					if ai == 1 {
						dataArg = call.Call.Args[pi]
					}
				}
			}
		}
		if mapped == 2 {
			vs = append(vs, call)
			data[call] = dataArg
		}
	}
	ok := len(vs) == 2
	if ok {
		for _, re := range eng.Returns(cs) {
			if !eng.IsNilConst(re.Incoming(0)) {
				continue
			}
			n := 0
			for _, cd := range eng.CondsAt(re.Ret) {
				for _, v := range vs {
					if cd.V == ssa.Value(v) && cd.True {
						n++
					}
				}
			}
			if n != 2 {
				ok = false
			}
		}
		d0 := eng.Desc(data[vs[0]]) + "|" + eng.Desc(data[vs[1]])
		if !(strings.Contains(d0, ".Hash") && strings.Contains(d0, ".preBH.Random")) {
			ok = false
		}
	}
	r.Check(ok, rule, "round2.checkSignature", c.Pos(cs.Pos()), "nil only after the recovered block signature verifies over bh.Hash and the recovered beacon over preBH.Random, both under the group key", "round2.checkSignature no longer requires both recovered signatures to verify")
	// Start: AddBlockOnChain (in the goroutine) only after checkSignature == nil
	csCall := callsNamed(start, "(*consensus/logical.round2).checkSignature")
	ok = len(csCall) == 1
	if ok {
		ok = false
		for _, b := range start.Blocks {
			for _, in := range b.Instrs {
				if g, isG := in.(*ssa.Go); isG {
					if nilEdgesAt(g)[ssa.Value(csCall[0])] {
						ok = true
					}
				}
			}
		}
	}
	r.Check(ok, rule, "round2.Start:verify-before-chain", c.Pos(start.Pos()), "the block is handed to the chain only after checkSignature returned nil", "round2 adds the block to the chain without (or before) checking the recovered signatures")
}

// c15PreVerifyBranches: in round1.Update, a branch taken on what the message
// says, with the share verification reachable on one side only, decides whether
// a member's share is ever looked at. The signer id is an unauthenticated wire
// field: whoever can make such a branch go the wrong way for an id silences
// that member without forging anything.
func c15PreVerifyBranches(c *eng.Ctx, r *eng.Report) {
	const rule = "R15.7"
	r.Min(rule, 1)
	fn := c.Func("consensus/logical", "(*round1).Update")
	if !r.Anchor(fn != nil, rule, "(*round1).Update") {
		return
	}
	var msg *ssa.Parameter
	for _, p := range fn.Params {
		if p.Name() == "msg" {
			msg = p
		}
	}
	verifies := callsNamed(fn, ".VerifySign")
	if msg == nil || len(verifies) == 0 {
		r.Fail(rule, "round1.Update:pre-verify-branches", c.Pos(fn.Pos()), "round1.Update no longer has a msg parameter / a VerifySign call: the share check has moved and must be re-reviewed")
		return
	}
	target := verifies[0].Block()
	reach := func(from *ssa.BasicBlock) bool {
		seen := map[*ssa.BasicBlock]bool{}
		var walk func(b *ssa.BasicBlock) bool
		walk = func(b *ssa.BasicBlock) bool {
			if b == target {
				return true
			}
			if seen[b] {
				return false
			}
			seen[b] = true
			for _, x := range b.Succs {
				if walk(x) {
					return true
				}
			}
			return false
		}
		return walk(from)
	}
	// the reviewed deciders
	reviewed := func(cond ssa.Value) bool {
		d := eng.Desc(cond)
		switch {
		case strings.Contains(d, ".(*consensus/model.ConsensusVerifyMessage)") && !strings.Contains(d, "["):
			return true // msg is a verify message
		case strings.Contains(d, "GetMemberSignPubKey(") && !strings.Contains(d, "["):
			return true // the sender's key is known
		case strings.Contains(d, "GetDataHash()") && !strings.Contains(d, "["):
			return true // the share is over this block's hash
		}
		return false
	}
	bad := ""
	n := 0
	for _, b := range fn.Blocks {
		iff, isIf := b.Instrs[len(b.Instrs)-1].(*ssa.If)
		if !isIf || b == target || target.Dominates(b) && b != target {
			continue
		}
		if !deepDerives(iff.Cond, msg) {
			continue
		}
		if reach(b.Succs[0]) == reach(b.Succs[1]) {
			continue
		}
		n++
		if !reviewed(iff.Cond) {
			bad = eng.Desc(iff.Cond) + " (" + c.Pos(iff.Pos()) + ")"
		}
	}
	r.Check(bad == "" && n >= 2, rule, "round1.Update:pre-verify-branches", c.Pos(fn.Pos()), fmt.Sprintf("%d message-dependent branches stand before the share verification, all reviewed (message type, key known, data hash)", n), "round1.Update decides on "+bad+" whether a share is verified at all: that condition depends on the unverified message (its claimed signer id), so a faulty member can pre-file junk naming honest members and their genuine shares are skipped — the threshold is never reached and the block does not finalise")
}

// deepDerives: like valueDerivesFromValue but deeper and through map lookups,
// calls and extracts (conditions on state keyed by message fields).
func deepDerives(a, b ssa.Value) bool {
	seen := map[ssa.Value]bool{}
	var walk func(v ssa.Value, d int) bool
	walk = func(v ssa.Value, d int) bool {
		if v == nil || d > 12 || seen[v] {
			return false
		}
		seen[v] = true
		if v == b {
			return true
		}
		if in, ok := v.(ssa.Instruction); ok {
			var ops []*ssa.Value
			for _, o := range in.Operands(ops) {
				if *o != nil && walk(*o, d+1) {
					return true
				}
			}
		}
		return false
	}
	return walk(a, 0)
}

// c15KeyBinding: first announcement wins.
func c15KeyBinding(c *eng.Ctx, r *eng.Report) {
	const rule = "R15.8"
	r.Min(rule, 2)
	setter := c.Func("consensus/model", "(*JoinedGroupInfo).AddMemberSignPK")
	if !r.Anchor(setter != nil, rule, "(*JoinedGroupInfo).AddMemberSignPK") {
		return
	}
	n := 0
	for _, site := range c.Callers(setter) {
		if c.IsTestFunc(site.Fn) {
			continue
		}
		n++
		fn := site.Fn
		key := "key-binding:" + eng.FuncName(fn)
		if eng.FuncName(fn) != "(*consensus/access.JoinedGroupStorage).AddMemberSignPk" {
			r.Fail(rule, key, c.Pos(site.Pos()), eng.FuncName(fn)+" writes a member's share public key: only JoinedGroupStorage.AddMemberSignPk (first announcement wins) is reviewed to")
			continue
		}
		// every path to the write crosses the not-stored edge of GetMemberSignPK(sameId)
		cut := func(a *ssa.BasicBlock, succ int) bool {
			iff, ok := a.Instrs[len(a.Instrs)-1].(*ssa.If)
			if !ok {
				return false
			}
			for _, cd := range eng.Conjuncts(iff.Cond, succ == 0, iff) {
				if ex, isE := cd.V.(*ssa.Extract); isE && ex.Index == 1 && !cd.True {
					if call, isC := ex.Tuple.(*ssa.Call); isC && strings.HasSuffix(eng.CallName(&call.Call), ".GetMemberSignPK") {
						return true
					}
				}
			}
			return false
		}
		open := eng.PathToAvoiding(fn, site.Instr, nil, cut)
		r.Check(!open, rule, key, c.Pos(site.Pos()), "the key is written only when none is stored for that member", "JoinedGroupStorage.AddMemberSignPk can overwrite a stored share public key (a path reaches jg.AddMemberSignPK without the `not stored yet` outcome of GetMemberSignPK): an announcement is only self-signed with the announced key, so any member can re-bind an honest member's id to a key it controls, have a forged share counted under that id and the genuine one dropped as a duplicate — the recovered signature is invalid and the block does not finalise")
	}
	r.Check(n >= 1, rule, "key-binding:sites", "", fmt.Sprintf("%d writers", n), "no caller of JoinedGroupInfo.AddMemberSignPK found")
}

// c15NoFatalOnContent: baseParty.Update forwards a non-nil *Error to party.Err
// and the processor closes the party. Whatever a single member can put into a
// message must therefore never lead to one.
func c15NoFatalOnContent(c *eng.Ctx, r *eng.Report) {
	const rule = "R15.9"
	r.Min(rule, 1)
	fn := c.Func("consensus/logical", "(*round1).Update")
	if !r.Anchor(fn != nil, rule, "(*round1).Update") {
		return
	}
	var msg *ssa.Parameter
	for _, p := range fn.Params {
		if p.Name() == "msg" {
			msg = p
		}
	}
	bad := ""
	nerr := 0
	for _, re := range eng.Returns(fn) {
		v := re.Incoming(0)
		if eng.IsNilConst(v) {
			continue
		}
		nerr++
		blk := re.Ret.Block()
		if re.Pred != nil {
			blk = re.Pred
		}
		for _, cd := range eng.EdgeConds(blk) {
			if msg == nil || !deepDerives(cd.V, msg) {
				continue
			}
			// the one reviewed content-dependent fatal: the message is not a verify message at all (a local dispatch error)
			if d := eng.Desc(cd.V); strings.HasPrefix(d, "msg.(") && strings.HasSuffix(d, "#1") {
				continue
			}
			bad = c.Pos(re.Ret.Pos()) + " under " + eng.Desc(cd.V)
		}
	}
	r.Check(bad == "" && nerr >= 1, rule, "round1.Update:no-fatal-on-content", c.Pos(fn.Pos()), "no error return depends on what the message carries", "round1.Update returns a fatal *Error at "+bad+", a condition on what the sender put into the message: the error ends the signing party, so one faulty member sending a malformed share stops a block for which enough valid shares would have arrived")
}

// c15RecoverDoesNotKill: see R15.10.
func c15RecoverDoesNotKill(c *eng.Ctx, r *eng.Report) {
	const rule = "R15.10"
	r.Min(rule, 1)
	fn := c.Func("consensus/logical", "(*baseParty).Update")
	if !r.Anchor(fn != nil, rule, "(*baseParty).Update") {
		return
	}
	n, bad := 0, ""
	for _, anon := range fn.AnonFuncs {
		recovers := false
		for _, s := range eng.Sites(anon) {
			if s.Name() == "builtin:recover" {
				recovers = true
			}
		}
		if !recovers {
			continue
		}
		n++
		// the handler's cone inside package logical
		cone := c.ConeOf([]*ssa.Function{anon}, func(f *ssa.Function) bool { return strings.HasSuffix(eng.FuncPkgPath(f), "/consensus/logical") })
		for _, f := range cone.Sorted() {
			if f.Blocks == nil || !strings.HasSuffix(eng.FuncPkgPath(f), "/consensus/logical") {
				continue
			}
			for _, b := range f.Blocks {
				for _, in := range b.Instrs {
					switch x := in.(type) {
					case *ssa.Send:
						if strings.HasSuffix(eng.Desc(x.Chan), ".Err") {
							bad = eng.FuncName(f) + " sends on the party's Err channel (" + c.Pos(x.Pos()) + ")"
						}
					case *ssa.Select:
						for _, st := range x.States {
							if st.Dir == types.SendOnly && strings.HasSuffix(eng.Desc(st.Chan), ".Err") {
								bad = eng.FuncName(f) + " sends on the party's Err channel in a select (" + c.Pos(x.Pos()) + ")"
							}
						}
					}
				}
			}
		}
	}
	r.Check(bad == "" && n >= 1, rule, "baseParty.Update:recover-is-local", c.Pos(fn.Pos()), "the recover handler only logs", "the deferred recover() of baseParty.Update ends the party: "+bad+" — one verify message with a 33-byte signer id makes ID.Serialize panic while round1.Update formats its log line, the party is closed and marked finished, the honest shares that follow are dropped and the block is never finalised")
}

// c15ThresholdCompare: see R15.11.
func c15ThresholdCompare(c *eng.Ctx, r *eng.Report) {
	const rule = "R15.11"
	r.Min(rule, 1)
	n := 0
	for _, spec := range [][2]string{{"consensus/logical", "(*groupSignGenerator).addWitnessForce"}, {"consensus/model", "(*GroupSignGenerator).AddWitnessForce"}, {"consensus/model", "(*GroupSignGenerator).addWitnessForce"}} {
		fn := c.Func(spec[0], spec[1])
		if fn == nil {
			continue
		}
		for _, b := range fn.Blocks {
			for _, in := range b.Instrs {
				bo, ok := in.(*ssa.BinOp)
				if !ok {
					continue
				}
				dx, dy := eng.Desc(bo.X), eng.Desc(bo.Y)
				var op token.Token
				switch {
				case strings.HasPrefix(dx, "builtin:len(") && strings.HasSuffix(strings.ToLower(dy), "threshold"):
					op = bo.Op
				case strings.HasPrefix(dy, "builtin:len(") && strings.HasSuffix(strings.ToLower(dx), "threshold"):
					op = eng.Flip(bo.Op)
				default:
					continue
				}
				n++
				// count OP threshold: the recovering side must be count >= threshold
				ok2 := op == token.GEQ || op == token.LSS
				r.Check(ok2, rule, "threshold-compare:"+spec[1], c.Pos(bo.Pos()), "shares are combined once count >= threshold", fmt.Sprintf("%s compares the number of collected shares with the threshold as `count %s threshold`: recovery then needs threshold+1 shares — with exactly threshold valid shares (one faulty or silent member in a 3-member group) the block never finalises", spec[1], op))
			}
		}
	}
	r.Check(n >= 1, rule, "threshold-compare:sites", "", fmt.Sprintf("%d comparisons of the share count with the threshold", n), "no comparison of len(shares) with the threshold found in the share generators")
}

// c15KeyOfThisGroup: see R15.12.
func c15KeyOfThisGroup(c *eng.Ctx, r *eng.Report) {
	const rule = "R15.12"
	r.Min(rule, 1)
	fn := c.Func("consensus/logical/group_create", "(*groupCreateProcessor).GetMemberSignPubKey")
	if !r.Anchor(fn != nil && len(fn.Params) == 3, rule, "(*groupCreateProcessor).GetMemberSignPubKey") {
		return
	}
	group, member := fn.Params[1], fn.Params[2]
	bad := ""
	n := 0
	var check func(v ssa.Value, d int, seen map[ssa.Value]bool)
	check = func(v ssa.Value, d int, seen map[ssa.Value]bool) {
		if v == nil || seen[v] || d > 10 {
			return
		}
		seen[v] = true
		switch x := v.(type) {
		case *ssa.Const:
			return // the zero key
		case *ssa.Phi:
			for _, e := range x.Edges {
				check(e, d+1, seen)
			}
			return
		case *ssa.UnOp:
			if x.Op == token.MUL {
				if rl := eng.ResolveLocal(x); rl != ssa.Value(x) {
					check(rl, d+1, seen)
					return
				}
				if al, ok := x.X.(*ssa.Alloc); ok {
					// named result: every store into it
					for _, ref := range *al.Referrers() {
						if st, isSt := ref.(*ssa.Store); isSt && st.Addr == ssa.Value(al) {
							check(st.Val, d+1, seen)
						}
					}
					return
				}
			}
		case *ssa.Extract:
			if call, ok := x.Tuple.(*ssa.Call); ok && x.Index == 0 && strings.HasSuffix(eng.CallName(&call.Call), ".GetMemberSignPK") {
				n++
				args := call.Call.Args
				okMember := len(args) >= 2 && eng.ResolveLocal(args[len(args)-1]) == ssa.Value(member)
				recv := call.Call.Value
				if !call.Call.IsInvoke() && len(args) > 0 {
					recv = args[0]
				}
				okGroup := false
				if rc, isC := eng.ResolveLocal(recv).(*ssa.Call); isC && strings.HasSuffix(eng.CallName(&rc.Call), ".GetJoinedGroupInfo") {
					a := rc.Call.Args
					okGroup = len(a) >= 1 && eng.ResolveLocal(a[len(a)-1]) == ssa.Value(group)
				}
				if !okMember || !okGroup {
					bad = "GetMemberSignPK at " + c.Pos(call.Pos()) + " is not member-of-this-group"
				}
				return
			}
		}
		bad = eng.Desc(v)
		if in, ok := v.(ssa.Instruction); ok && in.Pos().IsValid() {
			bad += " at " + c.Pos(in.Pos())
		}
	}
	for _, re := range eng.Returns(fn) {
		check(re.Incoming(0), 0, map[ssa.Value]bool{})
	}
	r.Check(bad == "" && n >= 1, rule, "share-key:of-this-group", c.Pos(fn.Pos()), "every returned key is GetJoinedGroupInfo(group).GetMemberSignPK(member)", "GetMemberSignPubKey can return a key that does not come from this group's record ("+bad+"): a miner that sits in two groups has a different share key in each, so a piece it signed for the other group is checked under the wrong key — accepted into this block's recovery set (the recovered signature then fails under the group key) while its genuine share is refused")
}

// c15MessageIdIsDigest: see R15.13.
func c15MessageIdIsDigest(c *eng.Ctx, r *eng.Report) {
	const rule = "R15.13"
	r.Min(rule, 1)
	fn := c.Func("consensus/net", "UnMarshalConsensusVerifyMessage")
	if !r.Anchor(fn != nil && len(fn.Params) == 1, rule, "net.UnMarshalConsensusVerifyMessage") {
		return
	}
	n, bad := 0, ""
	for _, b := range fn.Blocks {
		for _, in := range b.Instrs {
			st, ok := in.(*ssa.Store)
			if !ok {
				continue
			}
			if t, f := eng.FieldOf(st.Addr); f != "Id" || !strings.HasSuffix(t, "ConsensusVerifyMessage") {
				continue
			}
			n++
			digest := false
			seen := map[ssa.Value]bool{}
			var walk func(v ssa.Value, d int)
			walk = func(v ssa.Value, d int) {
				if v == nil || seen[v] || d > 8 {
					return
				}
				seen[v] = true
				if call, isC := v.(*ssa.Call); isC {
					nm := eng.CallName(&call.Call)
					if (strings.Contains(nm, "Sha256") || strings.Contains(nm, "Keccak") || strings.Contains(nm, "sha3")) && len(call.Call.Args) >= 1 && eng.ResolveLocal(call.Call.Args[0]) == ssa.Value(fn.Params[0]) {
						digest = true
						return
					}
				}
				if i2, isI := v.(ssa.Instruction); isI {
					var ops []*ssa.Value
					for _, o := range i2.Operands(ops) {
						walk(*o, d+1)
					}
				}
			}
			walk(st.Val, 0)
			if !digest {
				bad = eng.Desc(st.Val) + " at " + c.Pos(st.Pos())
			}
		}
	}
	r.Check(bad == "" && n >= 1, rule, "verify-message:id-is-digest", c.Pos(fn.Pos()), "Id is a hash of the received bytes", "the Id of a verify message is "+bad+", not a digest of the received bytes: it is built from fields the sender chooses, and the signer field is not authenticated when the id is used for de-duplication (CanAccept, futureMessages, processed) — a forged piece that names member A takes A's id first, and A's genuine share is then dropped as already processed, so one faulty member keeps a block with exactly threshold honest shares from finalising")
}

// c15OnlyCheckedPathFeedsShares: see R15.14.
func c15OnlyCheckedPathFeedsShares(c *eng.Ctx, r *eng.Report) {
	const rule = "R15.14"
	r.Min(rule, 1)
	n := 0
	for _, fn := range c.ModFuncs() {
		if fn.Blocks == nil || strings.Contains(eng.FuncPkgPath(fn), "_test") {
			continue
		}
		name := eng.FuncName(fn)
		if strings.HasPrefix(name, "(*consensus/logical.groupSignGenerator).") {
			continue
		}
		for _, s := range eng.Sites(fn) {
			nm := s.Name()
			if nm != "(*consensus/logical.groupSignGenerator).AddWitnessSign" && nm != "(*consensus/logical.groupSignGenerator).addWitnessForce" {
				continue
			}
			n++
			r.Check(name == "(*consensus/logical.round1).Update", rule, "share-feeder:"+name, c.Pos(s.Pos()), "the per-piece checked path of round 1", name+" adds a piece to a share set outside round1.Update: the piece has not passed the per-sender checks (member key of this group, data hash == this block's hash, share valid under that key, beacon share valid for the previous beacon) — verifying only what the set recovers to admits a well-formed piece signed with a wrong key, and whatever the fallback forgets to clear (a recovered invalid signature keeps SignRecovered() true) makes every later valid share be answered 'already had the piece': the party is stuck and the block does not finalise")
		}
	}
	if n == 0 {
		r.Fail(rule, "share-feeder:none", "", "no AddWitnessSign call outside the generator: the rule has lost its anchor")
	}
}

// c15PartyParksEverything: see R15.15.
func c15PartyParksEverything(c *eng.Ctx, r *eng.Report) {
	const rule = "R15.15"
	r.Min(rule, 1)
	fn := c.Func(logicalPkg, "(*baseParty).StoreMessage")
	if !r.Anchor(fn != nil, rule, "(*baseParty).StoreMessage") {
		return
	}
	var upd ssa.Instruction
	for _, b := range fn.Blocks {
		for _, in := range b.Instrs {
			if mu, ok := in.(*ssa.MapUpdate); ok && strings.HasSuffix(eng.Desc(mu.Map), ".futureMessages") {
				upd = in
			}
		}
	}
	if upd == nil {
		r.Fail(rule, "StoreMessage:parks-always", c.Pos(fn.Pos()), "baseParty.StoreMessage no longer updates futureMessages: early messages are not parked (or the parking moved and must be re-reviewed)")
		return
	}
	bad := ""
	for _, re := range eng.Returns(fn) {
		if !eng.Dominates(upd, re.Ret) {
			bad = c.Pos(re.Ret.Pos())
		}
	}
	r.Check(bad == "", rule, "StoreMessage:parks-always", c.Pos(upd.Pos()), "every return of StoreMessage follows the futureMessages update", "baseParty.StoreMessage can return (at "+bad+") without parking the message: whatever decides that is evaluated before any signature was checked, so one faulty member sending enough distinct forged verify messages during the round-0 wait uses it up, the honest shares that arrive afterwards are discarded and the block is never finalised")
}

// c15VerifiedBytesAreTheHash: see R15.16.
func c15VerifiedBytesAreTheHash(c *eng.Ctx, r *eng.Report) {
	const rule = "R15.16"
	r.Min(rule, 1)
	fn := c.Func("consensus/model", "(SignInfo).VerifySign")
	if fn == nil {
		fn = c.Func("consensus/model", "SignInfo.VerifySign")
	}
	if !r.Anchor(fn != nil, rule, "model.SignInfo.VerifySign") {
		return
	}
	n := 0
	for _, s := range eng.Sites(fn) {
		if s.Name() != "consensus/groupsig.VerifySig" {
			continue
		}
		n++
		fields := map[string]bool{}
		seen := map[ssa.Value]bool{}
		var walk func(v ssa.Value, d int)
		walk = func(v ssa.Value, d int) {
			if v == nil || seen[v] || d > 10 {
				return
			}
			seen[v] = true
			if t, f := eng.FieldOf(v); f != "" && strings.HasSuffix(t, "SignInfo") {
				fields[f] = true
			}
			if in, ok := v.(ssa.Instruction); ok {
				var ops []*ssa.Value
				for _, o := range in.Operands(ops) {
					walk(*o, d+1)
				}
			}
		}
		walk(s.Common().Args[1], 0)
		var extra []string
		for f := range fields {
			if f != "dataHash" {
				extra = append(extra, f)
			}
		}
		sort.Strings(extra)
		r.Check(fields["dataHash"] && len(extra) == 0, rule, "VerifySign:bytes-are-the-hash", c.Pos(s.Pos()), "the verified message is computed from dataHash alone", "SignInfo.VerifySign verifies the signature over bytes that also depend on the sender-filled field(s) "+strings.Join(extra, ", ")+": round 1 only compares dataHash with the block's hash, so a Byzantine member sets the field so that its signature — made over other bytes — verifies, the share is counted as a share over this block, the recovered group signature is garbage and the valid block never finalises")
	}
	if n == 0 {
		r.Fail(rule, "VerifySign:bytes-are-the-hash", c.Pos(fn.Pos()), "SignInfo.VerifySign no longer calls groupsig.VerifySig: the rule has lost its anchor")
	}
}

// c15DecodedIdsSerialise: see R15.17.
func c15DecodedIdsSerialise(c *eng.Ctx, r *eng.Report) {
	const rule = "R15.17"
	r.Min(rule, 1)
	de := c.Func("consensus/groupsig", "(*ID).Deserialize")
	ser := c.Func("consensus/groupsig", "(ID).Serialize")
	if ser == nil {
		ser = c.Func("consensus/groupsig", "ID.Serialize")
	}
	if !r.Anchor(de != nil && ser != nil && len(de.Params) == 2, rule, "groupsig.(*ID).Deserialize / ID.Serialize") {
		return
	}
	// does Serialize still panic on an over-long value?
	panics := false
	for _, b := range ser.Blocks {
		for _, in := range b.Instrs {
			if _, ok := in.(*ssa.Panic); ok {
				panics = true
			}
		}
	}
	if !panics {
		r.Pass(rule, "decoded-id:serialisable", c.Pos(ser.Pos()), "ID.Serialize no longer panics; nothing to bound")
		return
	}
	n, bad := 0, ""
	for _, s := range eng.Sites(de) {
		if !strings.HasSuffix(s.Name(), "BnInt).deserialize") {
			continue
		}
		n++
		bounded := false
		for _, cd := range eng.CondsAt(s.Instr) {
			m, isM := cd.Cmp()
			if !isM {
				continue
			}
			x, y, op := m.X, m.Y, m.Op
			if strings.HasPrefix(eng.Desc(y), "builtin:len(") {
				x, y = y, x
				switch op {
				case token.GEQ:
					op = token.LEQ
				case token.GTR:
					op = token.LSS
				}
			}
			if !strings.HasPrefix(eng.Desc(x), "builtin:len(") {
				continue
			}
			if k, isK := eng.ConstInt(y); isK && ((op == token.LEQ && k <= 32) || (op == token.LSS && k <= 33) || (op == token.EQL && k <= 32)) {
				bounded = true
			}
		}
		if !bounded {
			bad = c.Pos(s.Pos())
		}
	}
	r.Check(bad == "" && n >= 1, rule, "decoded-id:serialisable", c.Pos(de.Pos()), "Deserialize stores at most ID_LENGTH bytes", "(*ID).Deserialize stores input of any length (at "+bad+") while ID.Serialize panics for a value wider than ID_LENGTH: a verify message whose signer id is 33 bytes long decodes, and the first GetHexString on it — the debug line at the top of round1.Update — panics. Parked during the round-0 wait it blows up round1.Start's replay loop; baseParty.Update recovers, the loop is gone, and the honest pieces it had not reached stay filed for ever (a repeated copy is refused as already filed): with threshold honest pieces parked, the block fails to finalise in about half the map orders")
}

// c15OnlyMembersHaveShares: see R15.18.
func c15OnlyMembersHaveShares(c *eng.Ctx, r *eng.Report) {
	const rule = "R15.18"
	r.Min(rule, 2)
	fn := c.Func(logicalPkg, "(*round1).Update")
	if !r.Anchor(fn != nil, rule, "(*round1).Update") {
		return
	}
	for i, add := range callsNamed(fn, "(*consensus/logical.groupSignGenerator).AddWitnessSign") {
		member := false
		for _, cd := range eng.CondsAt(add) {
			call, ok := cd.V.(*ssa.Call)
			if !ok || !cd.True || !strings.HasSuffix(eng.CallName(&call.Call), "GroupInfo).MemExist") {
				continue
			}
			args := call.Call.Args
			if strings.HasSuffix(eng.Desc(args[0]), ".group") && strings.Contains(eng.Desc(args[len(args)-1]), "GetSignerID(") {
				member = true
			}
		}
		r.Check(member, rule, fmt.Sprintf("round1.Update:member-only#%d", i), c.Pos(add.Pos()), "the share is counted only for a member of the block's group", "round1.Update adds a share to a recovery set without having established that its sender is a member of the block's group: the share key is looked up by (group, signer), and the handler that stores those keys accepts a self-signed announcement from anybody — an outsider's share enters the set under its own id, the set 'recovers' a signature that fails under the group key with threshold-1 honest shares, SignRecovered() latches, the honest shares that follow are refused as duplicates of a finished set, and the valid block never finalises")
	}
}

// c15ReplayVisitsEveryParked: see R15.19.
func c15ReplayVisitsEveryParked(c *eng.Ctx, r *eng.Report) {
	const rule = "R15.19"
	r.Min(rule, 1)
	root := c.Func(logicalPkg, "(*Processor).waitUntilDone")
	if !r.Anchor(root != nil, rule, "(*Processor).waitUntilDone") {
		return
	}
	var fns []*ssa.Function
	var collect func(f *ssa.Function)
	collect = func(f *ssa.Function) {
		fns = append(fns, f)
		for _, a := range f.AnonFuncs {
			collect(a)
		}
	}
	collect(root)
	n, loops, bad := 0, 0, ""
	for _, fn := range fns {
		for _, s := range eng.Sites(fn) {
			if !strings.HasSuffix(s.Name(), "SignParty).Update") && !strings.HasSuffix(s.Name(), "baseParty).Update") {
				continue
			}
			n++
			cb := s.Instr.Block()
			// the cycle through the call's block
			reach := func(from *ssa.BasicBlock) map[*ssa.BasicBlock]bool {
				seen := map[*ssa.BasicBlock]bool{}
				var walk func(b *ssa.BasicBlock)
				walk = func(b *ssa.BasicBlock) {
					for _, x := range b.Succs {
						if !seen[x] {
							seen[x] = true
							walk(x)
						}
					}
				}
				walk(from)
				return seen
			}
			fwd := reach(cb)
			if !fwd[cb] {
				continue // not in a loop: one goroutine (or call) per message
			}
			loops++
			inLoop := map[*ssa.BasicBlock]bool{}
			for b := range fwd {
				if reach(b)[cb] {
					inLoop[b] = true
				}
			}
			msg := eng.ResolveLocal(s.Common().Args[len(s.Common().Args)-1])
			for b := range inLoop {
				iff, ok := b.Instrs[len(b.Instrs)-1].(*ssa.If)
				if !ok {
					continue
				}
				for _, x := range b.Succs {
					if !inLoop[x] && deepDerives(iff.Cond, msg) {
						bad = eng.Desc(iff.Cond) + " at " + c.Pos(iff.Cond.Pos())
					}
				}
			}
		}
	}
	r.Check(bad == "" && n >= 1, rule, "replay:visits-every-parked", c.Pos(root.Pos()), fmt.Sprintf("%d feed site(s), %d in a loop, no loop exit depends on the message fed", n, loops), "the loop that feeds parked messages to the party can be left on "+bad+", a condition computed from the message being fed: one forged early piece — filed under the block hash, signed over another hash — parked ahead of the honest ones ends the replay, the honest pieces behind it are dropped, and with exactly threshold honest shares the block never finalises on this node")
}
