#!/bin/bash
# Builds the checker from files on disk only (offline).
set -e
cd "$(dirname "$0")/checker"
export GOFLAGS=-mod=mod GOPROXY=off GOSUMDB=off GOTOOLCHAIN=local GOWORK=off
mkdir -p ../bin ../evidence
go build -o ../bin/rrcheck ./cmd/rrcheck
echo "built $(cd .. && pwd)/bin/rrcheck"
