#!/bin/bash
# usage: tools/confirm_seed.sh <seed-dir> <pkg-dir-relative> <test-regex> [extra pkgs whose baseline tests to run]
# Confirms a seeded change in a fresh scratch worktree: demo passes without the patch,
# the patch applies and builds, the package's stable baseline tests still pass, demo fails with it.
set -u
SEED="$1"; PKG="$2"; RE="$3"; shift 3
export GOFLAGS=-mod=mod GOPROXY=off GOSUMDB=off GOTOOLCHAIN=local; unset GOWORK
WT=$(mktemp -d /tmp/cf-XXXXXX); rmdir "$WT"
git -C /repo worktree add --detach "$WT" HEAD >/dev/null 2>&1 || { echo "worktree failed"; exit 2; }
trap 'git -C /repo worktree remove --force "$WT" >/dev/null 2>&1; rm -rf "$WT" "$WT.time.go" "$WT.overlay.json"' EXIT
cp "$SEED"/demo/*_test.go "$WT/$PKG/" 2>/dev/null
# NTP_OVERLAY=1: packages importing consensus/ticker block in init() on an NTP query offline; build the demo with an
# overlay whose only change is utility.ntpInitFlag = true (nothing in the worktree is modified)
OV=""
[ "${RACE:-0}" = "1" ] && OV="-race"
if [ "${NTP_OVERLAY:-0}" = "1" ]; then
  sed 's/ntpInitFlag = false/ntpInitFlag = true/' "$WT/src/utility/time.go" > "$WT.time.go"
  printf '{"Replace":{"%s/src/utility/time.go":"%s.time.go"}}' "$WT" "$WT" > "$WT.overlay.json"
  OV="$OV -overlay $WT.overlay.json"
fi
cd "$WT"
echo "--- demo WITHOUT patch (expect ok)"
go test $OV -vet=off -count=1 -timeout 20m -run "$RE" "./$PKG/" 2>&1 | tail -4
R0=${PIPESTATUS[0]}
git apply "$SEED/patch.diff" || { echo "PATCH DOES NOT APPLY"; exit 2; }
echo "--- build with patch"
go build ./... 2>&1 | grep -v "sqlite\|^\s\|^1232\|^#" | head -5
B=${PIPESTATUS[0]}
echo "--- demo WITH patch (expect FAIL)"
go test $OV -vet=off -count=1 -timeout 20m -run "$RE" "./$PKG/" 2>&1 | tail -8
R1=${PIPESTATUS[0]}
echo "--- stable baseline tests of touched packages with patch"
rm -f "$WT/$PKG"/seed_*_test.go "$WT/$PKG"/*seed*_test.go
python3 - "$WT" "./$PKG/" "$@" <<'PY'
import json, subprocess, sys, os
wt = sys.argv[1]; pk = sys.argv[2:]
base = json.load(open("/root/.vp/BASELINE.json")); stable = set(base["stable_pass"])
passed, pkgs = set(), set()
for one in pk:
    full = "com.tuntun.rangers/node/" + one.strip("./")
    names = sorted({t.split("::")[1].split("/")[0] for t in stable if t.split("::")[0] == full})
    pkgs.add(full)
    if not names: continue
    # only the pinned stable tests are run (some other tests of these packages hang for minutes at baseline)
    p = subprocess.run(["go","test","-json","-vet=off","-count=1","-timeout","10m","-run","^(" + "|".join(names) + ")$", one], cwd=wt, stdout=subprocess.PIPE, stderr=subprocess.DEVNULL, text=True)
    for line in p.stdout.splitlines():
        try: e = json.loads(line)
        except Exception: continue
        if e.get("Action") == "pass" and e.get("Test"): passed.add("%s::%s" % (e["Package"], e["Test"]))
want = {t for t in stable if t.split("::")[0] in pkgs}
miss = sorted(want - passed)
print("stable tests in touched packages: %d, passing with patch: %d" % (len(want), len(want & passed)))
for m in miss: print("  BROKEN-BY-PATCH", m)
PY
echo "SUMMARY demo_without=$R0 build=$B demo_with=$R1"
