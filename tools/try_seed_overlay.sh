#!/bin/bash
# usage: tools/try_seed_overlay.sh <dir-with-patch.diff> <prop> [more props...]
# Like try_seed.sh but never touches /repo: the files the patch touches are copied to a scratch
# directory, patched there and handed to rrcheck as in-memory overlays (what the thorough tier does
# for recorded seeds). Safe to run while other checks read /repo.
set -u
D="$1"; shift
export GOFLAGS=-mod=mod GOPROXY=off GOSUMDB=off GOTOOLCHAIN=local; unset GOWORK
SIDE=$(mktemp -d /tmp/tryov-XXXXXX); cp /verif/known_findings.json "$SIDE/"
trap 'rm -rf "$SIDE"' EXIT
files=$(grep '^+++ b/' "$D/patch.diff" | sed 's#^+++ b/##')
args=()
for f in $files; do
  mkdir -p "$SIDE/t/$(dirname $f)"
  [ -f "/repo/$f" ] && cp "/repo/$f" "$SIDE/t/$f"
done
patch -p1 -s -f -d "$SIDE/t" -i "$D/patch.diff" || { echo "patch does not apply"; exit 2; }
for f in $files; do args+=(-overlay "$f=$SIDE/t/$f"); done
cd /verif
[ -x bin/rrcheck ] || ./setup.sh >/dev/null
for P in "$@"; do
  out=$(bin/rrcheck -prop "$P" -tier quick -repo /repo -verif "$SIDE" "${args[@]}" 2>&1); rc=$?
  echo "== $P exit=$rc"
  echo "$out" | grep -E "^  violated|^VIOLATION|loader|type/parse" | cut -c1-400
done
