#!/usr/bin/env python3
"""Regression suite for the checker: replays every recorded seeded change (seeded/<id>/patch.diff)
in a scratch worktree of /repo's HEAD (never in /repo itself) and requires the property's quick
check to exit 1 with a VIOLATION line. usage: tools/replay_seeds.py [seed-id ...]"""
import json, glob, os, subprocess, sys, tempfile, shutil
V = os.path.dirname(os.path.dirname(os.path.abspath(__file__)))
env = dict(os.environ, GOFLAGS="-mod=mod", GOPROXY="off", GOSUMDB="off", GOTOOLCHAIN="local", GOWORK="off")
want = set(sys.argv[1:])
wt = tempfile.mkdtemp(prefix="replay-wt-"); os.rmdir(wt)
subprocess.run(["git", "-C", "/repo", "worktree", "add", "--detach", wt, "HEAD"], check=True, capture_output=True)
side = tempfile.mkdtemp(prefix="replay-side-"); shutil.copy(V + "/known_findings.json", side)
bad = 0
try:
    for d in sorted(glob.glob(V + "/seeded/C*-*")):
        sid = os.path.basename(d)
        if want and sid not in want: continue
        prop = json.load(open(d + "/meta.json"))["property"]
        a = subprocess.run(["git", "-C", wt, "apply", d + "/patch.diff"], capture_output=True, text=True)
        if a.returncode != 0:
            print(f"{sid}: PATCH DOES NOT APPLY to HEAD ({a.stderr.strip()[:120]})"); bad += 1; continue
        p = subprocess.run([V + "/bin/rrcheck", "-prop", prop, "-tier", "quick", "-repo", wt, "-verif", side], env=env, capture_output=True, text=True)
        rules = sorted({l.split()[1] for l in p.stdout.splitlines() if l.startswith("  violated")})
        ok = p.returncode == 1 and "VIOLATION property=" + prop in p.stdout
        print(f"{sid}: {'caught' if ok else 'NOT CAUGHT'} exit={p.returncode} rules={','.join(rules)}")
        if not ok: bad += 1
        subprocess.run(["git", "-C", wt, "checkout", "--", "."], capture_output=True)
        subprocess.run(["git", "-C", wt, "clean", "-fdq"], capture_output=True)
finally:
    subprocess.run(["git", "-C", "/repo", "worktree", "remove", "--force", wt], capture_output=True)
    shutil.rmtree(side, ignore_errors=True); shutil.rmtree(wt, ignore_errors=True)
print("replay:", "all caught" if bad == 0 else f"{bad} NOT caught")
sys.exit(1 if bad else 0)
