#!/usr/bin/env python3
"""usage: record_seed.py <seed-id> <src-dir> <check-result> <confirm-summary>
Copies a confirmed seeded change into /verif/seeded/<id>/ and extends its meta.json."""
import json, os, shutil, sys
sid, src, detected, confirm = sys.argv[1:5]
dst = os.path.join("/verif/seeded", sid)
os.makedirs(dst, exist_ok=True)
for f in ("patch.diff", "meta.json"):
    if os.path.exists(os.path.join(src, f)):
        shutil.copy(os.path.join(src, f), dst)
if os.path.isdir(os.path.join(src, "demo")):
    shutil.rmtree(os.path.join(dst, "demo"), ignore_errors=True)
    shutil.copytree(os.path.join(src, "demo"), os.path.join(dst, "demo"))
mp = os.path.join(dst, "meta.json")
m = json.load(open(mp)) if os.path.exists(mp) else {}
m["seed_id"] = sid
m["origin"] = "written by an independent sub-agent that saw only the property text and a scratch worktree"
m["confirmed_in_scratch_worktree"] = confirm
m["checks_result"] = detected
json.dump(m, open(mp, "w"), indent=1, ensure_ascii=False)
print("recorded", sid)
