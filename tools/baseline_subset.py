#!/usr/bin/env python3
"""Runs `go test -json` on the given /repo packages and compares with the pinned stable_pass list."""
import json, subprocess, sys, os
pk = sys.argv[1:] or ["./..."]
base = json.load(open("/root/.vp/BASELINE.json"))
stable = set(base["stable_pass"])
env = dict(os.environ, GOFLAGS="-mod=mod", GOPROXY="off", GOSUMDB="off")
p = subprocess.run(["go", "test", "-json", "-vet=off", "-count=1", "-timeout", "25m"] + pk, cwd=os.environ.get("VP_RUN_REPO", "/repo"), env=env, stdout=subprocess.PIPE, stderr=subprocess.DEVNULL, text=True)
passed, pkgs = set(), set()
for line in p.stdout.splitlines():
    try: e = json.loads(line)
    except Exception: continue
    if e.get("Package"): pkgs.add(e["Package"])
    if e.get("Action") == "pass" and e.get("Test"):
        passed.add("%s::%s" % (e["Package"], e["Test"]))
want = {t for t in stable if t.split("::")[0] in pkgs}
missing = sorted(want - passed)
print("packages run: %d; stable tests in them: %d; passed of those: %d" % (len(pkgs), len(want), len(want & passed)))
for m in missing: print("  MISSING", m)
sys.exit(1 if missing else 0)
