#!/usr/bin/env python3
"""Prints the prompt given to an independent mutant-writing sub-agent for one property.
Only the property record and sandbox mechanics are included — nothing about /verif's rules."""
import json, sys
pid = sys.argv[1]
wt = sys.argv[2]
out = sys.argv[3]
avoid = sys.argv[4] if len(sys.argv) > 4 else ""
prop = [json.loads(l) for l in open('/verif/properties.jsonl') if json.loads(l)['id'] == pid][0]
print(f"""You are helping evaluate a verification framework by writing realistic *bug-introducing* changes ("seeded defects") for a Go code base. You work ONLY inside your own scratch git worktree of the repository at {wt} (a checkout of rangersprotocolcode/go-rangers, a Go full node for the Rangers Protocol blockchain; module path com.tuntun.rangers/node, sources under src/). Never touch /repo or /verif, and do not read anything under /verif.

The property your changes must break (this is all you are given about it):

{json.dumps(prop, indent=1, ensure_ascii=False)}

Task: produce TWO independent, different changes to the repository source (not tests), each of which
  * BREAKS the property above (some input / schedule / crash point / history now violates the statement),
  * still COMPILES (`go build ./...` succeeds) and keeps every currently-passing existing test of the touched packages passing (run `go test -vet=off -count=1 ./src/<pkg>/` before and after; some existing tests already fail at baseline — the set of passing tests must not shrink),
  * is REALISTIC: the kind of slip a maintainer could make in a refactor, optimisation or feature patch (a dropped call, a reordered pair of statements, a wrong operand/comparison, a missing case, a new code path that forgets a duty, two sites that each look fine alone). Not a blatant sabotage, no dead code, no comments announcing the bug,
  * needs something SPECIFIC to manifest — a particular interleaving, a crash/fault at a particular point, a multi-step sequence of operations, an unusual input, or two cooperating sites — i.e. ordinary use (node start, a plain transfer) would not expose it at once,
  * the two changes should attack DIFFERENT mechanisms / different files of the property where possible.

For each change also write a DEMONSTRATION: a Go test file or small Go program that FAILS (or prints a clearly wrong result and exits non-zero) with the change applied and PASSES without it, using the repository's real code. A demonstration may be an in-package _test.go file placed in the worktree (it is delivered separately from the patch) or a standalone program in a scratch module.

{("Ideas that were already tried by others and must NOT be repeated (pick different mechanisms, files or code paths): " + avoid) if avoid else ""}

Sandbox mechanics (important, the sandbox is offline):
  * other jobs run on this machine: NEVER use pkill/killall or any kill by name pattern; only kill process ids you started yourself. Put a `-timeout` on every `go test` (some existing tests of src/service and src/consensus hang for many minutes: run single tests by name with -run rather than whole packages there; packages importing consensus/ticker block in init() on an NTP query offline).
  * prefix every shell command with: export GOFLAGS=-mod=mod GOPROXY=off GOSUMDB=off GOTOOLCHAIN=local; unset GOWORK
  * `go build ./...` in the worktree takes ~1 min the first time (a C warning from go-sqlite3 is normal).
  * A scratch program outside the worktree: go.mod with `module demo`, `go 1.13`, `require com.tuntun.rangers/node v0.0.0`, `replace com.tuntun.rangers/node => {wt}`, and `cp {wt}/go.sum .`.
  * Many packages need initialisation before use. A boot sequence that works for state/EVM/executor code: `common.Init(0, "1.ini", "dev"); common.SetBlockHeight(h); service.InitService(); vm.InitVM(); account.Init(); executor.InitExecutors()` (creates storage0/, logs/, 1.ini in the cwd — clean them up). In-memory state: `db.NewMemDatabase()` then `account.NewAccountDB(common.Hash{{}}, account.NewDatabase(mem))`. In-package tests can call unexported functions directly. Look at existing *_test.go files in the package for working set-up code.
  * If a faithful dynamic demonstration is truly impractical for one change (e.g. it needs a full multi-node network), write the closest executable demonstration you can (driving the affected functions directly) and explain exactly what it shows.

Deliverables — write them under {out}/ (create it), one sub-directory per change, named 1/ and 2/:
  * patch.diff   — `git diff` of the source change only (must apply with `git apply` to a clean checkout of the worktree's HEAD),
  * demo/        — the demonstration file(s) plus RUN.md saying exactly where to put them and the exact command to run, and the output you observed with and without the patch,
  * meta.json    — {{"property": "{pid}", "title": short title, "what_breaks": 2-3 sentences, "needs_to_manifest": what specific input/sequence/interleaving/crash point is required, "files_changed": [...], "ran": [commands you ran and their outcome]}}.
Before finishing, restore the worktree to a clean state (`git checkout -- . && git clean -fd` inside {wt}) and VERIFY each patch from clean: apply it, build, run the touched packages' tests, run the demo (fails), un-apply, run the demo (passes). Report in your final message a short summary of both changes and whether each verification step succeeded. Do not spend effort on anything else.""")
