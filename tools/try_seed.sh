#!/bin/bash
# usage: tools/try_seed.sh <dir-with-patch.diff> <prop> [more props...]
# Applies the seeded change to /repo, runs the quick check(s), and always undoes it.
# The checks write their evidence into a scratch directory, so /verif/evidence keeps
# describing the unchanged tree.
set -u
D="$1"; shift
export GOFLAGS=-mod=mod GOPROXY=off GOSUMDB=off GOTOOLCHAIN=local; unset GOWORK
cd /repo || exit 2
if ! git diff --quiet; then echo "repo has uncommitted changes to tracked files; refusing"; exit 2; fi
git apply "$D/patch.diff" || { echo "patch does not apply"; exit 2; }
SIDE=$(mktemp -d /tmp/tryseed-XXXXXX); cp /verif/known_findings.json "$SIDE/"
trap 'git -C /repo checkout -- . ; rm -rf "$SIDE"' EXIT
cd /verif
[ -x bin/rrcheck ] || ./setup.sh >/dev/null
for P in "$@"; do
  out=$(bin/rrcheck -prop "$P" -tier quick -repo /repo -verif "$SIDE" 2>&1); rc=$?
  echo "== $P exit=$rc"
  echo "$out" | grep -E "^  violated|^VIOLATION|loader" | cut -c1-400
done
