#!/bin/bash
# usage: tools/try_seed.sh <dir-with-patch.diff> <prop> [more props...]
# Applies the seeded change to /repo, runs the quick check(s), and always undoes it.
set -u
D="$1"; shift
cd /repo || exit 2
if ! git diff --quiet; then echo "repo has uncommitted changes to tracked files; refusing"; exit 2; fi
git apply "$D/patch.diff" || { echo "patch does not apply"; exit 2; }
trap 'git -C /repo checkout -- . ' EXIT
cd /verif
for P in "$@"; do
  out=$(./check.sh "$P" quick 2>&1); rc=$?
  echo "== $P exit=$rc"
  echo "$out" | grep -E "^  violated|^VIOLATION|loader" | cut -c1-400
done
