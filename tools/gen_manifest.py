#!/usr/bin/env python3
"""Regenerates /verif/MANIFEST.json from the table below (run after adding a rule set)."""
import json, os, subprocess

VERIF = os.path.dirname(os.path.dirname(os.path.abspath(__file__)))

# id -> (design section, technique, level text, level note)
CLAIMED = {
 "C13": ("3/C13",
  "agreement (sibling/table) rules over SSA value origins: every threshold source is GetGroupK(member count); evaluation-point and key/value pairing in dealer, collector and combiner; modulus identity of every Mod/ModInverse; Lagrange loop shape (guard, operand roles, sign parity, index ranges); dealer constant-coefficient agreement; ownership rule (no in-place curve operation through an input or a shallow copy of one)",
  "Structural necessary conditions of subset/order independence, decided for the current source: dealer, collector and combiner agree on threshold, evaluation points (incl. a value-preserving id key encoding), scalar modulus and constant coefficient; the Lagrange coefficient has the shape Π_{j≠i} x_j/(x_j−x_i) over all indices; recovery and aggregation never write through the collected shares. Exhaustive over the call sites and functions named (≈50 obligations). The algebraic identity itself — that interpolation over any ≥k points gives the same group element and that it verifies — is NOT decided; this is a thin claim.",
  "Trusted: math/big and bn256 group arithmetic; distinct non-zero ids; go/ssa lowering. Rules R13.2(f) and R13.5 were added while building (see DESIGN.md §3 C13 and §8)."),
 "C12": ("3/C12",
  "SSA/CFG must-pass-through with value-sensitive path search; call-graph cone (VTA) vs jump-table row flags; who-may-write on a struct field",
  "Structural necessary conditions of the property decided for every path / table row / writer of the current source: every EVM frame entry reverts to its snapshot on every non-nil-error return; every jump-table row whose handler can reach a raw state setter is write-protected; the static flag is sticky; Prepare resets every per-transaction scratch field and is called before each transaction. Exhaustive over the finite syntactic space (6 frame entries, ~150 rows, all stores to readOnly); the behavioural remainder (state equality as a value) is not decided.",
  "Trusted: go/types + go/ssa lowering, VTA call graph over-approximates callees; the raw-setter list (account package) is the bottom of all observable state mutation; access-list and refund counter excluded from 'observable state'. Recorded defects F12, F13a-d, F14 are printed as KNOWN-FINDING."),
 "C10": ("3/C10",
  "abstract interpretation of every jump-table handler (symbolic operand stack + constant propagation) compared with the row declarations and an embedded Yellow-Paper (delta,alpha) table; operator/operand binding of word operations; guard-edge checks on jumps",
  "For every row of every jump table (base set and proposal patches; ~156 rows) the handler's stack effect on each success exit equals the row's declaration and the Yellow-Paper (δ,α); for the 25 straight-line word operations plus DUPn/SWAPn/PUSHn the uint256 method, the operand slots, the result slot and the guard polarity equal a reference table; JUMP/JUMPI write pc only after validJumpdest accepted. Exhaustive over rows and handler paths. The 256-bit arithmetic itself, KECCAK, memory copies and the jump-dest bitmap are not decided.",
  "Trusted: holiman/uint256 method semantics; the (δ,α) and operand-order reference transcribed in rules/vmrows.go and rules/c10.go; go/ssa lowering."),
 "C11": ("3/C11",
  "abstract interpretation of handlers (stack bounds, memory accesses as entry-slot operands) vs memorySize/dynamicGas functions; who-may-write Contract.Gas; dominance of depth/gas/stack guards; input-bounds lint for precompiles; panic triage over the call-graph cone",
  "Structural necessary conditions of totality/resource bounds, exhaustive over ~156 rows, all writers of Contract.Gas, six frame entries, 40 precompile functions, all overflow-flag producers and every explicit panic in the interpreter's cone: no handler under/overflows the validated stack; every memory access lies in a region the row's memorySize accounts for and is charged; gas only decreases except for gas returned by a nested frame; depth guards, charge-before-run and validate-before-execute orderings hold. Termination as such and exact gas values are not decided.",
  "Trusted: go/ssa, VTA call graph; memory is grown only by Run. Recorded defect F11 (AUTH row without memorySize → host panic) is printed as KNOWN-FINDING."),
 "C04": ("3/C04",
  "who-may-write tables over struct fields (stores, map updates, deletes, sync.Map mutators); must-pass-through of journal appends before raw setters; entry/undo sibling agreement; contradiction rule on length-observable maps; loop-shape check of RevertToSnapshot",
  "Journal completeness decided structurally for every write site of every journaled field of storage/account (~60 (field, function) pairs), every raw-setter call site, every journal entry type and its undo, and the revert loop: a mutation outside the reviewed writer table, a raw mutation not preceded by its journal entry on some path, an undo that touches other state than its entry, or a changed revert loop is reported. Value equality of queries after a revert is not decided.",
  "Trusted: the journaled-field list and writer/pair tables in rules/c04.go (each row with its class); go/ssa. Recorded defect F5 (undo cannot shrink cachedStorage/dirtyStorage while empty() reads their length) is printed as KNOWN-FINDING."),
 "C01": ("3/C01",
  "cone purity over the VTA call graph of VMExecutor.Execute (forbidden-construct scan with a reviewed, mechanically re-checked instance table); natural-loop analysis of map ranges (early exits, appends, sort-after); value-flow of clock reads; who-may-read chain stores; dominance/guard rules for sort and snapshot/revert",
  "Every function reachable from block execution (~1,090, cut at logging/mysql/notify) is scanned for replica-local nondeterminism sources; each of the 18 hits is in a reviewed table and still has the mechanical shape of its class; reads of the block/group stores from the cone are the six reviewed ones; canonical sort precedes execution; failed transactions are reverted to the snapshot taken immediately before. Exhaustive over the cone. That the deterministic code computes the right root, and the sub-chain reward call, are not decided.",
  "Trusted: VTA over-approximates callees; logging/mysql/notify do not feed consensus state; the classification reasons in rules/c01.go. The fix: commit 9e782cd (ChangeAssets sorted iteration) repaired finding F1; the check re-verifies the sorted-after shape on every run."),
 "C05": ("3/C05",
  "dominance and must-pass-through on the CFG of insertBlock/remove/recovery; who-may-write/who-may-call tables for the block stores and head pointer; guarded-by comparison with operand roles for the fork-choice sites",
  "Bracketing, ownership and ordering facts decided for every store write and every caller: intent mark before the first and erased after the last store write (insert and remove); the three block stores and the head pointer are written only from the reviewed set, whose members are called only inside brackets; recovery runs before the head's state is opened and never erases a mark without re-running remove(); state commit precedes the head update; all three callers of removeFromCommonAncestor are guarded by the TotalQN / prove-value / hash comparison with the correct operand roles; verification precedes insertion. What happens at each physical crash point is not decided.",
  "Trusted: go/ssa; single-key LevelDB writes are atomic; chain lock held by callers."),
 "C17": ("3/C17",
  "guarded-by / dominance rules on add, MarkExecuted, UnMarkExecuted, checkNonce; must-pass-through inside the packing loop; lockset analysis of guarded fields with caller-side establishment; field-type table for shared structs",
  "For the pool's entry points: push only after a negative existence test over both stores; executed records written and flushed before removal from pending and deleted before re-adding; batch bounded by the per-block limit; no packing on the nonce-too-high edge and nonce advance implies packing; every field of TxPool/simpleContainer is thread-safe by type, immutable, or accessed only under its mutex at every access site. Linearizability and third-party container internals are not decided.",
  "Trusted: golang-lru, gmap(safe=true), sync.Map, LevelDB are goroutine-safe. The fix: commit bc55981 (mutex around TxPool.batch) repaired finding F17; the lockset rule re-checks it on every run."),
 "C02": ("3/C02",
  "fresh-object (copy-on-write) store analysis over SSA value origins; created-node/dirty-flag pairing; guard-edge checks on cached-hash returns and on the minimal-form type tests; constant obligations on the embed threshold and force arguments",
  "Structural necessary conditions of a history-independent MPT root decided for all 60 stores into node fields of storage/trie, every node created or copied in insert/delete, the three cached-hash returns, the embed threshold and all force arguments, the two wrap sites of delete, and the branch value slot. Equality of the root with the Yellow-Paper value, hex-prefix encoding and iteration order are value-level and not decided.",
  "Trusted: go/ssa; node types are unexported so only package trie touches them; hashChildren returns fresh copies (reviewed)."),
 "C03": ("3/C03",
  "reachability/dominance on the CFG of NodeDatabase.commit/Commit and AccountDB.Commit; who-may-call for the GC entry points; struct-field coverage of the leaf callback; result-discipline (project-specific errcheck) on the commit cone",
  "Write-ordering and ownership facts decided structurally: commit is a post-order recursion (children, error-checked, before the node's Put; flush after Put); uncache only after the final successful batch write; no production caller of Dereference/Cap and no Delete in the state packages; the leaf callback references every hash-valued Account field unconditionally of the others; storage trie committed before the account record; state then node database committed before success/head update; commit/batch errors consumed on the insertBlock cone. Physical crash behaviour and LevelDB's own guarantees are not decided. A non-recursive rewrite of commit is reported as undecidable (fails closed).",
  "Trusted: LevelDB batch atomicity/durability; go/ssa; VTA call graph for the who-may-call rule."),
 "C06": ("3/C06",
  "classification table over every balance-changing call site with mechanical shape checks per class (same-SSA-value debit/credit pairing); guarded-by comparison with operand roles (fresh GetBalance of the same address vs the debited amount); ordering rule for the funds pre-check; value-origin scan for floating point",
  "Every production call site of AddBalance/SubBalance/SetBalance/AddFT/SubFT/SetFT/Transfer outside storage/account (45 sites in 20 functions) is classified (move, lock, scheduled credit, genesis, touch, selfdestruct, state override) and its class shape re-checked; every debit is guarded by a fresh balance comparison of the same address and amount (or is the EVM transfer behind CanTransfer in every frame entry); bottom-level subtraction is guarded; no amount derives from a float except the reviewed stake conversions. The sums themselves are not decided.",
  "Trusted: balances change only through the listed methods (and EVM SSTORE into the bound token contract). Recorded defects F7 (10 RPG burn in minerNodeExecutor) and F8 (unguarded gas-fee debit in contractExecutor.Execute) are printed as KNOWN-FINDING."),
 "C07": ("3/C07",
  "must-pass-through on accept returns (nil-edge collection over the dominating conditions); operand-role checks on the verification calls; encoder/comparator field coverage; hash-coverage of fields read in the execution cone; dominance of VerifyTransaction over every admission call site with one-level wrapper inlining",
  "The admission pipeline is complete on every path: VerifyTransaction accepts only via verifyETHTx or after chain-id, hash and signature checks; the signature check needs recovery, secp256k1 verification and source==address; the wrapped-Ethereum path recovers the sender under this chain's EIP-155 id and compares every converted field; every Transaction field read by execution is covered by GenHash or a reviewed exclusion; all admission call sites (network peer path and three gateway paths) are gated. ECDSA soundness and bit-flip rejection are not decided.",
  "Trusted: libsecp256k1 (cgo) and the upstream EIP-155 signer; go/ssa."),
 "C08": ("3/C08",
  "allocation-after-check dominance; read-after-willRead; non-wrapping form of bound comparisons on input-derived lengths; accept-edge check of the trailing-data test; panic triage over the decode cone; census of (sentinel, operator, constant) canonical-form guards and sibling agreement of the two tag parsers; cache-key field coverage",
  "Totality and the canonical-error skeleton decided structurally: every input-sized allocation follows a successful Kind(); every read follows willRead; bound tests cannot wrap; DecodeBytes rejects trailing bytes; no unreviewed explicit panic in the decode cone; both tag parsers keep the same case boundaries and the canonical-form guards (size<56, leading zero, single byte <0x80) are all present; the codec cache is keyed by (type, tags). Round-trip equality and uniqueness of encodings for all values, and the encoder, are not decided.",
  "Trusted: reflect / io.Reader semantics; the reference guard set in rules/c08.go was recorded from the reviewed tree."),
 "C09": ("3/C09",
  "nil-guard analysis of protobuf field dereferences driven by the proto2 struct tags (opt/req) from go/types; inter-procedural parameter-dereference summaries; struct-field coverage of encoder/decoder pairs against the Go struct and the identifying hash",
  "Totality on absent optional fields: every dereference of a pointer-typed field of a middleware/pb message, every access through an optional nested message, and every hand-over of one to a dereferencing function is guarded or the field is `req` (29 sites in types, core, consensus/net, network). Coverage: every field of Transaction, BlockHeader, GroupHeader, Group, Member, Block is read by its encoder and written by its decoder (4 reviewed exclusions, none hashed); *big.Int fields are rebuilt under a presence test. Value equality after a round trip is not decided.",
  "Trusted: proto2 Unmarshal rejects absent `req` fields; generated getters are nil-safe. The fix: commits b249124 (getters in the four converters, F9) and c9cb1bf (envelope Code, F20) repaired the findings; the rule re-checks them on every run."),
 "C15": ("3/C15",
  "guarded-by analysis (accept-edge conditions with operand roles) of the share-adding calls; sibling agreement of the two block-signing handlers; membership-test-before-insert on the recovery map; accept-edge analysis of round2",
  "On every path of round1.Update a block share reaches the recovery set only after the member key lookup succeeded, the signed data hash equalled this block's hash and the share verified; the beacon share only after VerifySig(key, preBH.Random, share); both block-signing handlers compare the signed hash with a local one; duplicates are refused; round2 hands the block to the chain only after both recovered signatures verified under the group key. Recovery correctness (C13) and network behaviour are not decided.",
  "Trusted: groupsig.VerifySig (C14); go/ssa. The fix: commit f4e6b61 (data-hash comparison in round1.Update) repaired finding F16; the rule re-checks it on every run."),
 "C19": ("3/C19",
  "inverse-operation table over the store operations of save/remove with entry-relative index arithmetic on the height key; guarded-by analysis of AddGroup; writer/reader key agreement on constant objects; who-may-write for count/lastGroup/groups",
  "save and remove are inverses key family by key family (record, last pointer, height-index entry of exactly the added/removed group, count) and both maintain the in-memory count/last group; AddGroup saves only under the lock with parent present and predecessor == last; start-up reloads the keys save writes and height lookups use the same key derivation; only save/remove/init write the store, the count and the last pointer. Mid-operation crashes (no intent mark exists) are not decided.",
  "Trusted: go/ssa. The fix: commit 3c26ddb (delete the removed group's height entry) repaired finding F18; the rule re-checks it on every run."),
 "C20": ("3/C20",
  "layer-coherence check of the storage read APIs; amount/operand pairing on AddMiner/AddStake/GetRefundStake and its three callers; Sha256-nesting-depth agreement of key derivations across writer, reader, iterator and remover; mutation-cone check of every BeforeExecute",
  "Agreement rules decided structurally: lookup by id, by account and by iteration must sit on the same storage layer; stake debited == stake recorded, after uniqueness in both registries; refunded == subtracted, removal only below the type's minimum, callers schedule the returned amount; all four functions derive stake/account/status keys at depth 1/2/3; BeforeExecute mutates only through ProcessFee. The sums themselves are not decided.",
  "Trusted: go/ssa; miner records live only under the two registry addresses. Recorded defects F19 (DataIterator ignores pending writes) and F21 (UNSTAKE schedules the requested, not the subtracted amount — confirmed with a demo) are printed as KNOWN-FINDING."),
 "C18": ("3/C18",
  "abstract interpretation of the parser over an error-bound domain: constants (prec, rounding mode, base) and the ParseFloat→Mul→Int pipeline extracted from SSA/go/types, closed-form inequalities discharged with math/big; float-freeness and composition checks on the formatters and balance accessors; value-origin check on the wrapped-transaction value path",
  "Proof obligations O0–O6, extracted from the current source on every run and all discharged: the parser is exact for every decimal string with <=18 fractional and <=78 integer digits (prec 512 >= 322, both roundings away from zero, accumulated excess < 1 so truncation returns the exact integer), the formatter is float-free string arithmetic with exactly 18 fractional digits, the ERC20/Rocket rescalers are compositions of the two and every token-contract balance access goes through them, and a wrapped Ethereum transaction's value travels BigIntToStr → StrToBigInt unmodified. Strings with more than 18 fractional digits and ParseFloat's non-decimal syntaxes are outside the claim.",
  "Trusted base: math/big rounding semantics as documented, go/types constant evaluation, go/ssa lowering, and the error-propagation lemma written out in the evidence."),
 "C14": ("3/C14",
  "operator/operand binding of the verification equation on SSA; accept-edge guards; result discipline on G1/G2.Unmarshal; accept-edge analysis of the curve decoders; cone purity (no process-local state) for Sign/VerifySig; right-alignment idiom check on big-integer byte copies",
  "Shape of BLS verification decided structurally: VerifySig returns true only as PairIsEuqal(Pair(sig, g2), Pair(H(msg), pub)) of its own arguments after the nil/validity guards; Sign computes H(msg)^sk; signature decoders consume both results of G1.Unmarshal; G1/G2.Unmarshal accept only full-length, on-curve (or infinity) encodings; nothing in the cone of Sign/VerifySig consults process-local mutable state; big-integer bytes are right-aligned in fixed-width buffers. Bilinearity, non-degeneracy, subgroup membership and soundness are algebraic and not decided (the baseline's curve tests sample them).",
  "Trusted: bn256 pairing arithmetic; go/ssa. The fix: commit 12a6f68 (exact-length signature decoding) repaired finding F15; R14.2 re-checks it on every run."),
 "C16": ("3/C16",
  "value-origin check that decode/ratio consumers take the padded proof; padding-side idiom check of both helpers; cone purity of prover and verifier; accept-edge analysis of ECVRFVerify and verifyBlockVRF; shape check of calQn",
  "Structural necessary conditions decided: a proof is left-padded to 80 bytes (right-aligned copy, full-length proofs untouched) before it is decoded or its lottery output is read; prover and verifier cones contain no randomness, clock, cache or package-level mutable state; ECVRFVerify accepts only on equality of the recomputed challenge with the proof's c after a successful decode, with hashToCurve bound to its own message and key; qn = floor(ratio/step)+1 with the ratio clamped, qualification is `<`, verifyBlockVRF requires verified ∧ qualified ∧ TotalQN match. Uniqueness/soundness of the VRF and bit-flip rejection are cryptographic and not decided.",
  "Trusted: edwards25519 arithmetic, SHA-512; go/ssa; VTA call graph."),
}

NOT_YET = {}

def main():
    props = [json.loads(l) for l in open(os.path.join(VERIF, "properties.jsonl"))]
    checks, na = [], []
    na_reasons = json.load(open(os.path.join(VERIF, "tools", "not_applicable.json")))
    for p in props:
        pid = p["id"]
        if pid in CLAIMED:
            sec, tech, text, note = CLAIMED[pid]
            cat = "proof" if pid == "C18" else "other"
            # the rule set as built (taken from the checker's own explanation in the last evidence file), so the
            # claim always names the rules that actually run, including the clauses added after seeded changes
            try:
                ev = json.load(open(os.path.join(VERIF, "evidence", pid + ".json")))
                text = text + " Rules as built (from the checker): " + ev["coverage"]["explanation"]
            except Exception:
                pass
            note = note + " See DESIGN.md §9 (rule inventory as built, seeded changes caught/missed, thorough tier)."
            checks.append({
                "property_id": pid,
                "quick_cmd": "./check.sh %s quick" % pid,
                "thorough_cmd": "./check.sh %s thorough" % pid,
                "evidence_file": "/verif/evidence/%s.json" % pid,
                "replay_cmd_template": "cat {path}",
                "engine": "rrcheck",
                "level_claimed": {"category": cat, "text": text, "design_ref": "DESIGN.md §" + sec},
                "level_note": note,
                "technique": "static analysis: " + tech,
            })
        else:
            na.append({"property_id": pid, "reason": na_reasons.get(pid, "no static check registered yet in this round; see DESIGN.md §3")})
    man = {
        "version": 1,
        "setup_cmd": "./setup.sh",
        "hooks": {
            "guard": "verif",
            "enable": "none needed: the checks are static and read /repo's working tree as it is; no instrumentation exists, so there is nothing to enable (build tag `verif` is reserved and unused)",
            "baseline_off_cmd": "cd /repo && GOFLAGS=-mod=mod go test -json -vet=off -count=1 -timeout 25m ./...",
            "source_commits": [],
            "add_only": True,
        },
        "engines": [{
            "name": "rrcheck",
            "path": "/verif/checker",
            "serves_properties": [c["property_id"] for c in checks],
            "kind_free_text": "repository-specific static analyser on go/packages + go/ssa + VTA call graph (x/tools v0.29.0): dominance, must-pass-through path search, who-may-write/call tables, table-vs-handler agreement, sibling agreement; canary overlays test that each rule fires",
        }],
        "checks": checks,
        "not_applicable": na,
        "notes": "All checks are static (no node code is executed). quick = all rules of the property on the default build configuration; thorough = quick + in-memory canary mutants that must make each rule fire. Genuine defects found are listed in /verif/known_findings.json and printed as KNOWN-FINDING lines.",
    }
    json.dump(man, open(os.path.join(VERIF, "MANIFEST.json"), "w"), indent=1)
    print("wrote MANIFEST.json: %d checks, %d not_applicable" % (len(checks), len(na)))

if __name__ == "__main__":
    main()
