#!/usr/bin/env python3
"""Thorough tier for one property (DESIGN.md §1.3/§1.4).

1. the property's rules on the default build configuration (writes evidence/<id>.json);
2. optionally (RR_ALT_CONFIGS) the same rules on alternative build configurations;
3. canary mutants: each canary is an in-memory overlay of one repository file with
   one instance of a rule broken; the rule must report exactly that instance.
   A rule that cannot be shown to fire is not believed.

Exit 0: property held on every configuration (known findings listed) and every
applicable canary fired. Exit 1 + VIOLATION line: an unlisted violation on some
configuration. Exit 2 + SELFTEST-FAIL line: a canary applied but its rule stayed
silent (the check is blind; nothing is claimed).
"""
import json, os, re, shutil, subprocess, sys, tempfile, time
from concurrent.futures import ThreadPoolExecutor

VERIF = os.path.dirname(os.path.dirname(os.path.abspath(__file__)))
RR = os.path.join(VERIF, "bin", "rrcheck")


def run(args, env_extra=None):
    env = dict(os.environ)
    env.update({"GOFLAGS": "-mod=mod", "GOPROXY": "off", "GOSUMDB": "off", "GOTOOLCHAIN": "local", "GOWORK": "off"})
    if env_extra:
        env.update(env_extra)
    p = subprocess.run(args, env=env, stdout=subprocess.PIPE, stderr=subprocess.STDOUT, text=True)
    return p.returncode, p.stdout


def side_dir():
    d = tempfile.mkdtemp(prefix="rrside-")
    shutil.copy(os.path.join(VERIF, "known_findings.json"), d)
    return d


def apply_canary(can, repo):
    """returns (new_content, None) or (None, reason)"""
    path = os.path.join(repo, can["file"])
    try:
        src = open(path).read()
    except OSError as e:
        return None, "file missing: %s" % e
    if "find_re" in can:
        new, n = re.subn(can["find_re"], can["replace"], src, count=1, flags=re.S)
        if n != 1:
            return None, "pattern not found"
        return new, None
    cnt = src.count(can["find"])
    if cnt < 1:
        return None, "anchor text not found"
    if cnt > 1 and not can.get("first"):
        return None, "anchor text ambiguous (%d matches)" % cnt
    new = src.replace(can["find"], can["replace"], 1)
    for step in can.get("then", []):  # further edits of the same file, applied in order
        if new.count(step["find"]) != 1:
            return None, "follow-up anchor text not found exactly once"
        new = new.replace(step["find"], step["replace"], 1)
    return new, None


def run_canary(prop, can, repo):
    new, why = apply_canary(can, repo)
    res = {"name": can["name"], "file": can["file"], "expect": can["expect"]}
    if new is None:
        res.update(status="unapplied", reason=why)
        return res
    d = side_dir()
    try:
        mf = os.path.join(d, "mutant.go")
        open(mf, "w").write(new)
        rc, out = run([RR, "-prop", prop, "-tier", "quick", "-repo", repo, "-verif", d, "-overlay", "%s=%s" % (can["file"], mf)])
        viol = []
        vp = os.path.join(d, "evidence", prop + ".violations.json")
        if os.path.exists(vp):
            viol = json.load(open(vp))["violations"]
        exp = can["expect"]
        hit = [v for v in viol if v["rule"] == exp["rule"] and exp.get("construct", "") in v["construct"]]
        if "type/parse errors" in out or "loader" in [v["rule"] for v in viol]:
            res.update(status="mutant-does-not-compile", detail=out[-600:])
        elif hit:
            res.update(status="fired", reported=hit[0]["construct"], others=len(viol) - len(hit))
        else:
            res.update(status="silent", detail=[(v["rule"], v["construct"]) for v in viol][:10])
        return res
    finally:
        shutil.rmtree(d, ignore_errors=True)


def run_benign(prop, var, repo):
    """behaviour-preserving variant: the rules must stay silent"""
    new, why = apply_canary(var, repo)
    res = {"name": var["name"], "file": var["file"], "kind": "benign"}
    if new is None:
        res.update(status="unapplied", reason=why)
        return res
    d = side_dir()
    try:
        mf = os.path.join(d, "variant.go")
        open(mf, "w").write(new)
        rc, out = run([RR, "-prop", prop, "-tier", "quick", "-repo", repo, "-verif", d, "-overlay", "%s=%s" % (var["file"], mf)])
        if "type/parse errors" in out:
            res.update(status="mutant-does-not-compile", detail=out[-400:])
        elif rc == 0:
            res.update(status="silent-as-expected")
        else:
            res.update(status="false-alarm", detail=[l for l in out.splitlines() if l.startswith("  violated")][:5])
        return res
    finally:
        shutil.rmtree(d, ignore_errors=True)


def run_seed(prop, seed_dir, repo, benign_patch=None, canary_patch=None):
    """A recorded seeded change (seeded/<id>/patch.diff) replayed as in-memory overlays of the
    files it touches: the property's rules must report a violation. Nothing is written to the repo.
    With benign_patch (canaries/benign_patches/<prop>/<name>.diff: a behaviour-preserving change that
    spans several files) the expectation is reversed: the rules must stay silent."""
    sid = os.path.basename(seed_dir)
    res = {"name": "seed:" + sid, "kind": "seeded-change"}
    patch = os.path.join(seed_dir, "patch.diff")
    if benign_patch:
        patch = benign_patch
        res = {"name": "patch:" + os.path.basename(benign_patch)[:-5], "kind": "benign"}
    if canary_patch:
        # canaries/canary_patches/<prop>/<name>.diff: a benign patch with one line broken — must be reported
        patch = canary_patch
        res = {"name": "patch:" + os.path.basename(canary_patch)[:-5], "kind": "canary"}
    files = [l[6:].strip() for l in open(patch) if l.startswith("+++ b/")]
    d = side_dir()
    try:
        for f in files:
            os.makedirs(os.path.join(d, "t", os.path.dirname(f)), exist_ok=True)
            src = os.path.join(repo, f)
            if os.path.exists(src):
                shutil.copy(src, os.path.join(d, "t", f))
        pr = subprocess.run(["patch", "-p1", "-s", "-f", "-d", os.path.join(d, "t"), "-i", patch], stdout=subprocess.PIPE, stderr=subprocess.STDOUT, text=True)
        if pr.returncode != 0:
            res.update(status="unapplied", reason="patch does not apply to the current tree (the tree moved on): " + pr.stdout.strip()[:120])
            return res
        args = [RR, "-prop", prop, "-tier", "quick", "-repo", repo, "-verif", d]
        for f in files:
            args += ["-overlay", "%s=%s" % (f, os.path.join(d, "t", f))]
        rc, out = run(args)
        viol = []
        vp = os.path.join(d, "evidence", prop + ".violations.json")
        if os.path.exists(vp):
            viol = json.load(open(vp))["violations"]
        if "type/parse errors" in out or "loader" in [v["rule"] for v in viol]:
            res.update(status="mutant-does-not-compile", detail=out[-400:])
        elif benign_patch:
            if rc == 0:
                res.update(status="silent-as-expected")
            else:
                res.update(status="false-alarm", detail=[l for l in out.splitlines() if l.startswith("  violated")][:5])
        elif rc == 1 and viol:
            res.update(status="fired", reported=", ".join(sorted({v["rule"] + " " + v["construct"] for v in viol}))[:300])
        else:
            res.update(status="silent", detail="exit=%d" % rc)
        return res
    finally:
        shutil.rmtree(d, ignore_errors=True)


def main():
    prop, repo = sys.argv[1], (sys.argv[2] if len(sys.argv) > 2 else "/repo")
    t0 = time.time()
    rc, out = run([RR, "-prop", prop, "-tier", "thorough", "-repo", repo, "-verif", VERIF])
    sys.stdout.write(out)
    evp = os.path.join(VERIF, "evidence", prop + ".json")
    final_rc = rc
    thorough = {"alt_configs": [], "canaries": []}

    # alternative build configurations
    # (none by default: go-rangers needs cgo (common/secp256k1, go-sqlite3) and no cross C
    # toolchain exists in the sandbox, so GOARCH=386/arm64 cannot type-check the module;
    # RR_ALT_CONFIGS="name:K=V,K=V;…" re-enables them where a toolchain exists.)
    alts = []
    for spec in filter(None, os.environ.get("RR_ALT_CONFIGS", "").split(";")):
        n, _, e = spec.partition(":")
        alts.append((n, e))

    def alt(a):
        name, envs = a
        d = side_dir()
        try:
            rc2, out2 = run([RR, "-prop", prop, "-tier", "quick", "-repo", repo, "-verif", d], {"RR_ENV": envs})
            ev = {}
            try:
                ev = json.load(open(os.path.join(d, "evidence", prop + ".json")))
            except Exception:
                pass
            viol = []
            vp = os.path.join(d, "evidence", prop + ".violations.json")
            if os.path.exists(vp):
                viol = json.load(open(vp))["violations"]
            return {"config": name, "exit": rc2, "obligations": ev.get("coverage", {}).get("obligations"),
                    "violations": viol, "tail": out2[-400:] if rc2 not in (0, 1) else ""}
        finally:
            shutil.rmtree(d, ignore_errors=True)

    cans = []
    cf = os.path.join(VERIF, "canaries", prop + ".json")
    if os.path.exists(cf):
        cans = json.load(open(cf))["canaries"]
    bens = []
    bf = os.path.join(VERIF, "canaries", prop + ".benign.json")
    if os.path.exists(bf):
        bens = json.load(open(bf))["variants"]
    with ThreadPoolExecutor(max_workers=6) as ex:
        alt_f = [ex.submit(alt, a) for a in alts]
        can_f = [ex.submit(run_canary, prop, c, repo) for c in cans]
        import glob as _glob
        ben_f = [ex.submit(run_benign, prop, b, repo) for b in bens]
        seed_f = [ex.submit(run_seed, prop, sd, repo) for sd in sorted(_glob.glob(os.path.join(VERIF, "seeded", prop + "-*")))]
        thorough["alt_configs"] = [f.result() for f in alt_f]
        cp_f = [ex.submit(run_seed, prop, "", repo, None, cp) for cp in sorted(_glob.glob(os.path.join(VERIF, "canaries", "canary_patches", prop, "*.diff")))]
        thorough["canaries"] = [f.result() for f in can_f] + [f.result() for f in cp_f]
        bp_f = [ex.submit(run_seed, prop, "", repo, bp) for bp in sorted(_glob.glob(os.path.join(VERIF, "canaries", "benign_patches", prop, "*.diff")))]
        thorough["benign_variants"] = [f.result() for f in ben_f] + [f.result() for f in bp_f]
        thorough["seeded_changes"] = [f.result() for f in seed_f]

    for a in thorough["alt_configs"]:
        print("alt-config %s: exit=%s obligations=%s violations=%d" % (a["config"], a["exit"], a["obligations"], len(a["violations"])))
        if a["exit"] == 1 and a["violations"] and not any(v["rule"] == "loader" for v in a["violations"]):
            final_rc = 1
            vp = os.path.join(VERIF, "evidence", prop + ".violations.json")
            json.dump({"property": prop, "config": a["config"], "violations": a["violations"]}, open(vp, "w"), indent=1)
            for v in a["violations"]:
                print("  violated [%s] %s %s: %s" % (a["config"], v["rule"], v["construct"], v.get("detail", "")[:200]))
            print("VIOLATION property=%s replay=%s" % (prop, vp))
        elif a["exit"] not in (0, 1):
            print("  alt-config could not be analysed (recorded, not a verdict): " + a["tail"].strip().replace("\n", " | ")[:300])
    silent = []
    warn = []  # self-test items that could not be run on this tree (anchor text moved): reported, not a verdict
    for cres in thorough["canaries"]:
        print("canary %-40s %s%s" % (cres["name"], cres["status"], (" -> " + cres.get("reported", "")) if cres["status"] == "fired" else (" (" + str(cres.get("reason", cres.get("detail", "")))[:200] + ")")))
        if cres["status"] == "silent":
            silent.append(cres["name"])
        elif cres["status"] in ("mutant-does-not-compile", "unapplied"):
            warn.append(cres["name"])
    for sres in thorough.get("seeded_changes", []):
        print("seeded %-40s %s%s" % (sres["name"], sres["status"], (" -> " + sres.get("reported", "")) if sres["status"] == "fired" else (" (" + str(sres.get("reason", sres.get("detail", "")))[:200] + ")")))
        if sres["status"] == "silent":
            silent.append(sres["name"])
    for bres in thorough.get("benign_variants", []):
        print("benign %-40s %s %s" % (bres["name"], bres["status"], str(bres.get("detail", bres.get("reason", "")))[:300]))
        if bres["status"] == "false-alarm":
            silent.append("benign:" + bres["name"])
        elif bres["status"] in ("mutant-does-not-compile", "unapplied"):
            warn.append("benign:" + bres["name"])
    try:
        ev = json.load(open(evp))
        ev["tier"] = "thorough"
        ev["coverage"]["thorough"] = thorough
        ev["coverage"]["canaries_fired"] = sum(1 for c in thorough["canaries"] if c["status"] == "fired")
        ev["coverage"]["canaries_total"] = len(thorough["canaries"])
        ev["wall_s"] = time.time() - t0
        json.dump(ev, open(evp, "w"), indent=1)
    except Exception as e:
        print("cannot update evidence:", e)
        final_rc = final_rc or 2
    if warn:
        print("SELFTEST-SKIPPED property=%s (anchor text not found or variant does not compile on this tree; not a verdict): %s" % (prop, ", ".join(warn)))
    if silent and final_rc == 0:
        print("SELFTEST-FAIL property=%s canaries that stayed silent / benign variants that were flagged: %s" % (prop, ", ".join(silent)))
        final_rc = 2
    sys.exit(final_rc)


if __name__ == "__main__":
    main()
